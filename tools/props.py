"""Per-property exploration: case generation, running model + implementation, comparison rules,
classification of oracle failures.  Used by /verif/check."""
import collections, hashlib, json, os, re, subprocess

ROOT = os.path.dirname(os.path.dirname(os.path.abspath(__file__)))
_MSG = None


def msg_table():
    global _MSG
    if _MSG is None:
        p = os.path.join(ROOT, "lean", "SonicModel", "Gen", "error_messages.json")
        try:
            with open(p) as f:
                _MSG = json.load(f)
        except Exception:
            _MSG = {}
    return _MSG


def unhex(h):
    return b"" if h == "-" else bytes.fromhex(h)


def canon_impl_verdict(v):
    """harness verdict -> canonical `A[:s:e]` / `R:<Code>:<off>` ; PANIC stays PANIC"""
    if v is None:
        return None
    if v.startswith("R:"):
        parts = v.split(":")
        msg = unhex(parts[1]).decode("utf-8", "replace") if len(parts) > 1 else ""
        code = msg_table().get(msg, "Message")
        off = parts[2] if len(parts) > 2 else "?"
        return f"R:{code}:{off}"
    return v


def ar(v):
    if v is None:
        return None
    return v[0] if v[:1] in ("A", "R") else v


class Result:
    def __init__(self, pid):
        self.pid = pid
        self.evaluations = 0
        self.samples = []
        self.oracle_failures = []
        self.model_disagreements = []
        self.adequacy = []
        self.notes = []
        self.distribution = collections.Counter()
        self.exhaustive = False
        self._nontrivial = set()

    def nontrivial(self, case):
        self._nontrivial.add(hashlib.sha1(case.encode()).digest()[:8])

    def distinct_nontrivial(self):
        return len(self._nontrivial)


class Prop:
    rule = ""
    trusted = []
    assumptions = []

    def explore(self, ctx, res):
        raise NotImplementedError


def run_stream(ctx, name, cases_path):
    """run implementation and model over a case file; returns (impl_lines, model_lines)"""
    impl_path = cases_path + ".impl"
    model_path = cases_path + ".model"
    rc, err = ctx["run_lines"](ctx["vh"], [name, "run"], cases_path, impl_path)
    impl_crashed = rc != 0
    if impl_crashed:
        # run again with line-by-line flushing so that the output is complete up to the case that kills the process
        rc, err = ctx["run_lines"](ctx["vh"], [name, "run"], cases_path, impl_path, dict(VH_FLUSH="1"), 180)
    with open(impl_path, errors="replace") as f:
        impl = f.read().splitlines()
    model = None
    if ctx["driver"]:
        rc2, err2 = ctx["run_lines"](ctx["driver"], [], cases_path, model_path)
        with open(model_path, errors="replace") as f:
            model = f.read().splitlines()
    return impl, model, impl_crashed, err


def generate(ctx, name, extra=None):
    cases_path = os.path.join(ctx["work"], f"{name}.cases")
    if ctx.get("replay"):
        with open(ctx["replay"]) as f:
            lines = [l for l in f.read().splitlines() if l and not l.startswith("#")]
        with open(cases_path, "w") as f:
            f.write("\n".join(lines) + "\n")
        return cases_path
    corpus = []
    cdir = os.path.join(ROOT, "corpus", name)
    if os.path.isdir(cdir):
        for fn in sorted(os.listdir(cdir)):
            with open(os.path.join(cdir, fn)) as f:
                corpus += [l for l in f.read().splitlines() if l and not l.startswith("#")]
    with open(cases_path, "w") as f:
        for l in corpus:
            f.write(l + "\n")
        f.flush()
        p = subprocess.run([ctx["vh"], name, "gen", str(ctx["seed"]), ctx["tier"]] + (extra or []), stdout=f, stderr=subprocess.PIPE, env=ctx["env"])
    if p.returncode != 0:
        with open(cases_path, "w") as f:
            for l in corpus:
                f.write(l + "\n")
            f.flush()
            p = subprocess.run([ctx["vh"], name, "gen", str(ctx["seed"]), ctx["tier"]] + (extra or []), stdout=f, stderr=subprocess.PIPE, env=dict(ctx["env"], VH_FLUSH="1"))
    if p.returncode != 0:
        # a generator that dies leaves the property unexplored: never let that pass silently (generators that
        # execute the library to choose applicable operations die when the library corrupts memory)
        with open(cases_path) as f:
            lines = f.read().splitlines()
        ctx.setdefault("gen_failures", []).append(dict(key=f"{name}:generator-abort", case=(lines[-1] if lines else f"{name} <none>"),
            detail=f"case generator exited with status {p.returncode} after {len(lines)} cases: {(p.stderr or b'').decode('utf-8', 'replace')[-300:]}"))
    return cases_path


def build_variant(ctx, tag, features=None, rustflags=None):
    """builds the harness a second time (other cargo features / rustflags) into its own target directory"""
    tdir = os.path.join(ctx["harness"], f"target_{tag}")
    cmd = ["cargo", "build", "--release", "--offline", "--target-dir", tdir]
    if features:
        cmd += ["--features", ",".join(features)]
    env = dict(ctx["env"])
    if rustflags is not None:
        env["RUSTFLAGS"] = rustflags
    p = subprocess.run(cmd, cwd=ctx["harness"], env=env, stdout=subprocess.PIPE, stderr=subprocess.STDOUT)
    if p.returncode != 0:
        ctx.setdefault("gen_failures", []).append(dict(key=f"variant-build-failed:{tag}", case=f"cargo build {tag}",
            detail=p.stdout.decode("utf-8", "replace")[-600:]))
        return None
    return os.path.join(tdir, "release", "vh")


def num_tokens(hexs):
    """the number tokens of a JSON text (outside strings), in order"""
    try:
        b = bytes.fromhex(hexs) if hexs != "-" else b""
    except ValueError:
        return None
    out, i, n = [], 0, len(b)
    while i < n:
        c = b[i]
        if c == 0x22:
            i += 1
            while i < n and b[i] != 0x22:
                i += 2 if b[i] == 0x5c else 1
            i += 1
        elif c == 0x2d or 0x30 <= c <= 0x39:
            j = i + 1
            while j < n and (0x30 <= b[j] <= 0x39 or b[j] in b".eE+-"):
                j += 1
            out.append(b[i:j].decode("ascii"))
            i = j
        else:
            i += 1
    return out


def same_number(src, out):
    """C06: an integer within u64 / i64 keeps its exact digits, every other number its exact f64 value (sign of zero included)"""
    import struct
    if re.fullmatch(r"-?[0-9]+", src) and src != "-0":
        v = int(src)
        if (0 <= v < 2 ** 64) or (-2 ** 63 <= v < 0):
            return out == src
    try:
        return struct.pack("<d", float(src)) == struct.pack("<d", float(out))
    except (ValueError, OverflowError):
        return False


def shape_of(hexs):
    """text with every number token outside strings replaced by '#'"""
    try:
        b = bytes.fromhex(hexs) if hexs != "-" else b""
    except ValueError:
        return None
    out = bytearray()
    i, n = 0, len(b)
    while i < n:
        c = b[i]
        if c == 0x22:
            j = i + 1
            while j < n and b[j] != 0x22:
                j += 2 if b[j] == 0x5c else 1
            out += b[i:j + 1]
            i = j + 1
        elif c in b"-+.0123456789eE" and not (c in b"eE" and (i == 0 or b[i-1:i] not in b"0123456789.")):
            j = i
            while j < n and b[j] in b"-+.0123456789eE":
                j += 1
            # literals true/false/null contain 'e': they are letters preceded by letters, handled by the guard above
            out += b"#"
            i = j
        else:
            out.append(c)
            i += 1
    return bytes(out)


class StreamProp(Prop):
    """A property decided over one or more line-protocol streams with declarative rules.

    rules: list of (kind, impl_field, model_field, canon) with kind in
      corr     : implementation field must equal the *model* field      (correspondence)
      oracle   : implementation field must equal the *specification* field (direct oracle)
      adequacy : reference implementation vs specification (reported, never a violation)
    canon: 'full' | 'ar'
    """
    streams = []   # [(name, rules)]
    variant_builds = []   # [(tag, rustflags)]: the oracle rules are applied to these builds of the harness as well

    def classify(self, stream, field, case, got, want, impl, model):
        return f"{field}:{ar(got)}-where-spec-says-{ar(want)}"

    def nontrivial_case(self, impl, model):
        return True

    def explore(self, ctx, res):
        for name, rules in self.streams:
            cases_path = generate(ctx, name)
            impl, model, crashed, err = run_stream(ctx, name, cases_path)
            with open(cases_path) as f:
                cases = f.read().splitlines()
            if crashed or len(impl) != len(cases):
                # the harness died: the case after the last answered line killed the process
                idx = min(len(impl), len(cases) - 1)
                res.oracle_failures.append(dict(key=f"{name}:process-abort", case=cases[idx],
                                                detail=f"harness exited abnormally after {len(impl)} of {len(cases)} cases: {err[-300:]}"))
            if model is not None and len(model) != len(cases):
                res.notes.append(f"{name}: model driver produced {len(model)} lines for {len(cases)} cases")
            n = min(len(impl), len(cases))
            for i in range(n):
                res.evaluations += 1
                I = ctx["parse_fields"](impl[i])
                M = ctx["parse_fields"](model[i]) if model is not None and i < len(model) else {}
                case = cases[i]
                if len(res.samples) < 6 and i % max(1, n // 6) == 0:
                    res.samples.append({"case": case[:300], "impl": impl[i][:300], "model": (model[i][:300] if model and i < len(model) else None)})
                if self.nontrivial_case(I, M):
                    res.nontrivial(case)
                self.tally(res, I, M)
                for kind, ifield, mfield, canon in rules:
                    if ifield not in I:
                        continue
                    got = canon_impl_verdict(I[ifield]) if canon in ("full", "ar") else I[ifield]
                    if canon == "ar":
                        got = ar(got)
                    if got == "PANIC" and kind != "adequacy":
                        res.oracle_failures.append(dict(key=f"{name}:{ifield}:panic", case=case, detail="implementation panicked"))
                        continue
                    if mfield not in M:
                        continue
                    want = M[mfield]
                    if canon == "ar":
                        want = ar(want)
                    if canon == "full" and want.startswith("A:") and got.startswith("A:") and want.count(":") == 2:
                        # model answers with a span, the implementation with the raw bytes
                        _, s_, e_ = want.split(":")
                        t_ = unhex(case.split(" ")[1])
                        want = "A:" + (t_[int(s_):int(e_)].hex() or "-")
                    if got == want:
                        continue
                    if kind == "corr":
                        res.model_disagreements.append(dict(key=f"{name}:{ifield}", case=case, detail=f"impl {ifield}={got} model {mfield}={want}"))
                    elif kind == "oracle":
                        key = self.classify(name, ifield, case, got, want, I, M)
                        if key is None:      # outside what the property states (see the property's classify)
                            continue
                        res.oracle_failures.append(dict(key=key, case=case, detail=f"impl {ifield}={got} spec {mfield}={want}"))
                    else:
                        if len(res.adequacy) < 50:
                            res.adequacy.append(f"{case[:80]}: ref {ifield}={got} spec {mfield}={want}")
            # the same cases through other builds of the same tree: direct oracle only
            for tag, flags in self.variant_builds:
                vb = build_variant(ctx, tag, rustflags=flags)
                if vb is None or model is None:
                    continue
                vpath = cases_path + "." + tag
                rc, verr = ctx["run_lines"](vb, [name, "run"], cases_path, vpath)
                with open(vpath, errors="replace") as f:
                    vimpl = f.read().splitlines()
                if rc != 0 or len(vimpl) != len(cases):
                    res.oracle_failures.append(dict(key=f"{name}:process-abort:{tag}-build", case=cases[min(len(vimpl), len(cases) - 1)],
                                                    detail=f"{tag} build of the harness exited abnormally after {len(vimpl)} of {len(cases)} cases: {verr[-300:]}"))
                res.distribution[f"build:{tag}"] += min(len(vimpl), len(cases))
                for i in range(min(len(vimpl), len(cases), len(model))):
                    I = ctx["parse_fields"](vimpl[i])
                    M = ctx["parse_fields"](model[i])
                    for kind, ifield, mfield, canon in rules:
                        if kind != "oracle" or ifield not in I or mfield not in M:
                            continue
                        got = canon_impl_verdict(I[ifield]) if canon in ("full", "ar") else I[ifield]
                        want = M[mfield]
                        if canon == "ar":
                            got, want = ar(got), ar(want)
                        if got == want:
                            continue
                        key = f"{name}:{ifield}:panic" if got == "PANIC" else self.classify(name, ifield, cases[i], got, want, I, M)
                        if key is None:
                            continue
                        res.oracle_failures.append(dict(key=key + f"|{tag}-build", case=cases[i], detail=f"({tag} build) impl {ifield}={got} spec {mfield}={want}"))

    def tally(self, res, I, M):
        pass


# ------------------------------------------------------------------------------------------
# C02

class C02(StreamProp):
    rule = ("exhaustive enumeration of all strings over an 18-symbol JSON alphabet up to length 3 (quick) / 5 (thorough), "
            "fixed corner cases, generated documents each followed by 1-2 random mutations (truncate, delete, substitute, insert, "
            "invalid UTF-8, bad escapes, trailing bytes), and token sweeps (length 0..200 x offset 0..64); a case is non-trivial "
            "when at least one entry point accepts it or the specification's two strengths disagree")
    trusted = ["modelled, not verified: serde's visitor side; simdutf8 taken as Spec.utf8Valid (compared on every input)",
               "the 32/64-byte block loops of skip_string/do_skip_number/skip_space are modelled by their scalar meaning (Layer 2 in Thm/C17)"]
    assumptions = ["the fully-decoding entry points are decided by the direct oracle Spec.document(strict) (their Layer-1 model is Thm/C03)",
                   "nesting depth of generated inputs stays below any limit"]
    SKIP = ["lazy", "lazy_str", "owned", "ign", "embl", "embi", "tupl_lazy", "tupl_owned", "tupl_ign"]
    SSTREAM = ["stream_lazy", "stream_owned", "stream_ign", "iter_lazy"]
    FULL = ["dom", "dom_str", "sj", "emb", "rdr"]
    STREAM = ["stream_bytes", "stream_slice", "stream_faststr"]
    streams = [("c02",
                [("corr", "lazy", "m.lazy", "full"), ("corr", "dom", "m.dom", "ar"), ("corr", "dom", "m.domp", "ar")]
                + [("oracle", f, "spec.skip", "ar") for f in SKIP]
                + [("oracle", f, "spec.full", "ar") for f in FULL]
                + [("oracle", f, "spec.prefix", "ar") for f in STREAM]
                + [("oracle", f, "spec.sprefix", "ar") for f in SSTREAM]
                + [("adequacy", "ref", "spec.full", "ar")])]

    def classify(self, stream, field, case, got, want, impl, model):
        t = unhex(case.split(" ")[1])
        cls = "other"
        if field in self.STREAM + self.SSTREAM and re.match(rb"^[ \t\r\n]*-?0[0-9]", t):
            # `Deserializer::deserialize` has no trailing check: `00` is the document `0` followed by
            # another one; the specification's maximal-munch rule for a leading zero is a whole-input
            # convenience and is not demanded of the stream entry point
            return None
        if ar(got) == "A":
            if re.search(rb"\\u(?![0-9a-fA-F]{4})", t):
                cls = "accepts-bad-hex-escape"
            elif model.get("utf8") == "R":
                cls = "accepts-invalid-utf8"
            else:
                cls = "accepts-malformed"
        else:
            cls = "rejects-wellformed"
        group = "skip" if field in self.SKIP else ("stream" if field in self.STREAM + self.SSTREAM else "full")
        return f"C02|{group}:{field}|{cls}"

    def nontrivial_case(self, I, M):
        return any(v.startswith("A") for v in I.values()) or M.get("spec.skip") != M.get("spec.full")

    def tally(self, res, I, M):
        # a leading number through the 32-lane model of do_skip_number and through the scalar one (proved equal: a difference
        # means the executable definitions are not what was proved about)
        nb, ns = M.get("m.numB"), M.get("m.numS")
        if nb is not None:
            res.distribution["number-block-model:" + nb.split(":")[0]] += 1
            if nb != ns:
                res.model_disagreements.append(dict(key="c02:block-number-model-vs-scalar-model", case="", detail=f"block {nb} scalar {ns}"))
        res.distribution["spec.skip=" + str(M.get("spec.skip"))] += 1
        res.distribution["spec.full=" + str(M.get("spec.full"))] += 1
        v = canon_impl_verdict(I.get("lazy", ""))
        if v and v.startswith("R:"):
            res.distribution["lazy.err=" + v.split(":")[1]] += 1


# ------------------------------------------------------------------------------------------
# C20

def parse_err(v):
    """E:<hexmsg>:<off>:<line>:<col>:<cat>:<disp>[:latchN] | OK | END[:latchN] | PANIC"""
    parts = v.split(":")
    d = {"kind": parts[0]}
    for p_ in parts:
        if p_.startswith("latch"):
            d["latch"] = int(p_[5:])
    if parts[0] == "E" and len(parts) >= 7:
        msg = unhex(parts[1]).decode("utf-8", "replace")
        d.update(code=msg_table().get(msg, "Message"), off=int(parts[2]), line=int(parts[3]), col=int(parts[4]),
                 cat=parts[5], disp=parts[6])
    return d


class C20(Prop):
    rule = ("generated multi-line documents (top-level object with members x, a, b so that lookups descend), each with one random "
            "mutation, one random truncation, and concatenations of several documents (streams); every error-returning entry point is "
            "run on every case; a case is non-trivial when at least one entry point returns an error with offset > 0")
    trusted = ["the line/column oracle is Spec.position evaluated by the compiled Lean driver on the offset the implementation reported"]
    assumptions = ["serde-generated (custom message) errors are positioned by Parser::fix_position; their wording is not compared"]
    LOOKUPS = {"get_a", "get_0", "get_b1", "get_root", "getu_a", "getu_0", "get_many", "get_a_str"}

    def explore(self, ctx, res):
        name = "c20"
        cases_path = generate(ctx, name)
        impl_path = cases_path + ".impl"
        rc, err = ctx["run_lines"](ctx["vh"], [name, "run"], cases_path, impl_path)
        with open(cases_path) as f:
            cases = f.read().splitlines()
        with open(impl_path, errors="replace") as f:
            impl = f.read().splitlines()
        if rc != 0 or len(impl) != len(cases):
            idx = min(len(impl), len(cases) - 1)
            res.oracle_failures.append(dict(key="c20:process-abort", case=cases[idx], detail=f"harness died after {len(impl)} cases: {err[-300:]}"))
        n = min(len(impl), len(cases))
        parsed = []
        q_path = cases_path + ".query"
        with open(q_path, "w") as q:
            for i in range(n):
                I = ctx["parse_fields"](impl[i])
                E = {k: parse_err(v) for k, v in I.items()}
                parsed.append(E)
                offs = sorted({e["off"] for e in E.values() if e["kind"] == "E"})
                q.write(f"{cases[i]} {','.join(map(str, offs)) if offs else '-'}\n")
        model = None
        if ctx["driver"]:
            model_path = cases_path + ".model"
            ctx["run_lines"](ctx["driver"], [], q_path, model_path)
            with open(model_path, errors="replace") as f:
                model = f.read().splitlines()
        for i in range(n):
            res.evaluations += 1
            case = cases[i]
            t = unhex(case.split(" ")[1])
            E = parsed[i]
            M = ctx["parse_fields"](model[i]) if model and i < len(model) else {}
            pos = {}
            if M.get("pos", "-") != "-":
                for item in M["pos"].split(","):
                    o, l, c, l2, c2, sn = item.split(":")
                    pos[int(o)] = (int(l), int(c), int(l2), int(c2), sn)
            if len(res.samples) < 6 and i % max(1, n // 6) == 0:
                res.samples.append({"case": case[:200], "impl": impl[i][:400], "model": (model[i][:200] if model and i < len(model) else None)})
            if any(e["kind"] == "E" and e["off"] > 0 for e in E.values()):
                res.nontrivial(case)
            for ep, e in E.items():
                if e["kind"] == "PANIC":
                    res.oracle_failures.append(dict(key=f"C20|{ep}|panic", case=case, detail="entry point panicked"))
                    continue
                if e.get("latch", 0) != 0:
                    res.oracle_failures.append(dict(key=f"C20|{ep}|yields-after-end-or-error", case=case, detail=f"{e['latch']} extra items after the end/error"))
                if e["kind"] == "NOEND":
                    res.oracle_failures.append(dict(key=f"C20|{ep}|never-ends", case=case, detail="more than 100000 items"))
                if e["kind"] != "E":
                    continue
                res.distribution[f"{ep}:{e['code']}"] += 1
                if e["disp"] != "d":
                    res.oracle_failures.append(dict(key=f"C20|{ep}|display-panics", case=case, detail=str(e)))
                if e["off"] > len(t):
                    res.oracle_failures.append(dict(key=f"C20|{ep}|offset-beyond-input", case=case, detail=f"offset {e['off']} > len {len(t)}"))
                    continue
                if e["off"] in pos:
                    l, c, l2, c2, sn = pos[e["off"]]
                    if (l, c) != (l2, c2):
                        res.model_disagreements.append(dict(key="c20:Position.from_index-vs-Spec.position", case=case, detail=f"off {e['off']}"))
                    if sn != "s":
                        res.model_disagreements.append(dict(key="c20:snippet-model-fault", case=case, detail=f"off {e['off']}"))
                    if (e["line"], e["col"]) != (l, c):
                        res.oracle_failures.append(dict(key=f"C20|{ep}|line-col-not-those-of-offset", case=case,
                                                        detail=f"{e['code']} offset {e['off']} reported line {e['line']} col {e['col']}, spec {l}:{c}"))
                if e["cat"] == "NotFound" and ep not in self.LOOKUPS:
                    res.oracle_failures.append(dict(key=f"C20|{ep}|notfound-outside-lookup", case=case, detail=str(e)))
            # correspondence: LazyValue entry point, code + offset + line + col
            if "m.lazy" in M and "lazy" in E:
                e = E["lazy"]
                got = f"R:{e['code']}:{e['off']}:{e['line']}:{e['col']}" if e["kind"] == "E" else "A"
                want = M["m.lazy"]
                if want.startswith("A:"):
                    want = "A"
                if got != want:
                    res.model_disagreements.append(dict(key="c20:lazy", case=case, detail=f"impl {got} model {want}"))


# ------------------------------------------------------------------------------------------
# C09

class C09(Prop):
    rule = ("every code point through \\uXXXX escapes / surrogate pairs (sampled every 257th in quick, all 1,114,112 in thorough), fixed malformed "
            "literals, a sweep placing an escape / quote / backslash / control / 2-3-4-byte character / bad escape / invalid byte at a "
            "position 0..130 of a string of length 0..200 at start offset 0..64, and random bodies with mutations; each literal is decoded "
            "as a whole document and as element 0 of an array with varying tails; non-trivial = the literal contains an escape, a "
            "multi-byte character or is rejected")
    trusted = ["the 32-byte StringBlock loops are modelled by their scalar meaning (first quote/backslash/control byte)",
               "String::from_utf8_lossy is specified by Spec.utf8Lossy (maximal-subpart replacement), compared on every lossy case"]
    assumptions = ["error codes of the decoders are not compared in this stream (C20 compares them for the skip path)"]

    def explore(self, ctx, res):
        name = "c09"
        cases_path = generate(ctx, name)
        impl, model, crashed, err = run_stream(ctx, name, cases_path)
        with open(cases_path) as f:
            cases = f.read().splitlines()
        if crashed or len(impl) != len(cases):
            idx = min(len(impl), len(cases) - 1)
            res.oracle_failures.append(dict(key="c09:process-abort", case=cases[idx], detail=f"harness died after {len(impl)} cases: {err[-300:]}"))
        n = min(len(impl), len(cases))
        for i in range(n):
            res.evaluations += 1
            case = cases[i]
            I = ctx["parse_fields"](impl[i])
            M = ctx["parse_fields"](model[i]) if model and i < len(model) else {}
            if len(res.samples) < 6 and i % max(1, n // 6) == 0:
                res.samples.append({"case": case[:200], "impl": impl[i][:300], "model": (model[i][:300] if model and i < len(model) else None)})
            if not M or "spec.strict" not in M:
                if model is not None:
                    res.model_disagreements.append(dict(key="c09:model-output-missing", case=case, detail=str(model[i] if i < len(model) else None)[:100]))
                continue
            ss = M["spec.strict"]
            s_ok = ss.startswith("S:")
            s_hex = ss.split(":")[1] if s_ok else None
            valid = s_ok and M["utf8"] == "A" and M["doc"] == "A"
            exp_strict = f"S:{s_hex}" if valid else "R"
            bs = M.get("bs") == "1"
            if bs or not s_ok or (s_hex and any(b >= 0x80 for b in unhex(s_hex))):
                res.nontrivial(case)
            res.distribution["strict=" + ("ok" if s_ok else "reject")] += 1
            res.distribution["escape=" + ("1" if bs else "0")] += 1
            # the block model of the copying decoder next to the scalar one (proved equal as views: parseStringRaw_eq)
            for fb, fs in (("m.blk", "m.blkS"), ("m.blkl", "m.blklS")):
                if fb in M:
                    res.distribution["string-block-model:" + M[fb][:1]] += 1
                    if M[fb] != M.get(fs):
                        res.model_disagreements.append(dict(key="c09:block-decoder-model-vs-scalar-model", case=case, detail=f"{fb} {M[fb][:80]} {fs} {str(M.get(fs))[:80]}"))
            # the in-place decoder through the hook: against its block-level model on the padded copy (correspondence), and
            # against the specification's reading of that copy (oracle: decoded bytes, end, nothing changed outside the literal)
            for fi, fm, fsp in (("ip", "m.ip", "spec.ip"), ("ipl", "m.ipl", "spec.ipl")):
                if fi in I and fm in M:
                    res.distribution["inplace-model:" + M[fm][:1]] += 1
                    if I[fi] != M[fm]:
                        res.model_disagreements.append(dict(key="c09:inplace-decoder-vs-model", case=case, detail=f"impl {fi}={I[fi][:120]} model {fm}={M[fm][:120]}"))
                    if I[fi] == "PANIC" or (fsp in M and I[fi] != M[fsp]):
                        res.oracle_failures.append(dict(key=f"C09|{fi}|in-place-decoder-differs-from-specification", case=case, detail=f"impl {fi}={I[fi][:120]} spec {fsp}={str(M.get(fsp))[:120]}"))
            # model self-consistency (the theorem decode_correct, observed)
            mv = M["m.strict"]
            mview = ":".join(mv.split(":")[:3]) if mv.startswith("S:") else "R"
            if mview != ss:
                res.model_disagreements.append(dict(key="c09:model-vs-spec(strict)", case=case, detail=f"{mv} vs {ss}"))
            if mv.startswith("S:") and (mv.split(":")[3] == "1") != bs:
                res.model_disagreements.append(dict(key="c09:model-escaped-flag", case=case, detail=f"{mv} bs={bs}"))
            exp = {"inplace": exp_strict, "copy": exp_strict, "key": exp_strict, "mapkey": exp_strict}
            exp["cow"] = (("O:" if bs else "B:") + s_hex) if valid else "R"
            exp["bstr"] = exp_strict if (valid and not bs) else "R"
            exp["getkey"] = "F:30" if valid else None
            exp["getkey2"] = "F:3330" if valid else None      # (raw text `30` in hex)
            exp["bytes2"] = exp_strict if valid else None     # (what a byte string makes of undecodable text is C04's business)
            exp["tuple3"] = exp_strict if valid else None
            t = unhex(case.split(" ")[1])
            ls = int(case.split(" ")[2])
            kind = case.split(" ")[3]
            # LazyValue / get: grammar-level acceptance of the literal (kind a: `get` looks at the
            # traversed prefix and the value only), as_str decodes strictly
            lazy_ok = (M["utf8"] == "A" and M["docg"] == "A") if kind == "p" else (M["g"] == "A" and M["pre8"] == "A")
            if lazy_ok:
                j = ls + 1
                while j < len(t):
                    if t[j] == 0x5c:
                        j += 2
                        continue
                    if t[j] == 0x22:
                        break
                    j += 1
                raw = t[ls:j + 1].hex()
                exp["lazystr"] = (f"S:{s_hex}" if s_ok else "R") + ":" + raw
            else:
                exp["lazystr"] = "R"
            exp["lossy_inplace"] = M["spec.lossy"] if M["docg"] == "A" else "R"
            exp["lossy_copy"] = exp["lossy_inplace"]
            for k, want in exp.items():
                if want is None or k not in I:
                    continue
                got = I[k]
                if got == "PANIC":
                    res.oracle_failures.append(dict(key=f"C09|{k}|panic", case=case, detail="panicked"))
                elif got != want:
                    cls = "decodes-differently" if (got[:1] in "SBOF" and want[:1] in "SBOF") else ("accepts-malformed" if want == "R" else "rejects-wellformed")
                    res.oracle_failures.append(dict(key=f"C09|{k}|{cls}", case=case, detail=f"impl {k}={got[:120]} spec {want[:120]}"))
            if "ref" in I and I["ref"] != exp_strict and len(res.adequacy) < 30:
                res.adequacy.append(f"{case[:100]}: serde_json {I['ref'][:60]} spec {exp_strict[:60]}")


# ------------------------------------------------------------------------------------------
# C10 / C14 (path lookups)

def spec_get_expect(M):
    """what a *checked* get must answer, from the specification's verdict"""
    sp = M.get("spec", "")
    if sp.startswith("F:") and M.get("pre8") == "A":
        return sp
    return "E"


class C10(Prop):
    rule = ("generated well-formed documents (nested, whitespace variants, escaped keys, long strings full of brackets/quotes/backslash runs "
            "across 32/64-byte edges) x up to 4 (quick) / 8 (thorough) of their valid paths, a quarter of them perturbed (missing key, "
            "out-of-range index, wrong kind, empty key); non-trivial = the path has at least one step and resolves")
    trusted = ["skip_container and skip_string_unchecked are modelled block by block (Impl/Block, Impl/StrSkip), proved equal to their scalar scans for "
               "every text and right on every well-formed container / string, and compared with the real functions through the hooks "
               "verif::container_block / verif::skip_string; the unchecked walkers themselves (get_from_object / get_from_array with get_next_token) are "
               "modelled in Impl/GetU, proved to find exactly what the specification's lookup finds whenever what they pass over is well-formed "
               "(unchecked_get_eq_lookup, unchecked_get_agrees_with_checked), and compared with get_unchecked on every case of the stream; the "
               "unchecked iterators (skip_one_unchecked, skip_number_unsafe) are modelled and proved in C12"]
    assumptions = ["documents are duplicate-free except the explicit first-member-wins cases"]
    CHECKED = ["get", "get_slice", "get_bytes", "get_str", "get_string", "get_faststr"]
    UNCHECKED = ["getu", "getu_str"]

    def explore(self, ctx, res):
        self._explore(ctx, res, "c10", wellformed=True)
        self._skippers(ctx, res)
        self._portable(ctx, res)

    def _portable(self, ctx, res):
        """the same lookups through the portable build of the harness (fallback block primitives, SSE2 vectors): what a user without
        AVX2 / PCLMUL gets must answer as the build whose answers were just compared with the specification (added after seed C10f)"""
        if ctx.get("replay"):
            return
        cases_path = os.path.join(ctx["work"], "c10.cases")
        native_path = cases_path + ".impl"
        if not (os.path.exists(cases_path) and os.path.exists(native_path)):
            return
        vb = build_variant(ctx, "base", rustflags="--cfg sonic_rs_verif -C target-cpu=x86-64")
        if vb is None:
            return
        outp = cases_path + ".base"
        rc, err = ctx["run_lines"](vb, ["c10", "run"], cases_path, outp)
        with open(cases_path) as f:
            cases = f.read().splitlines()
        with open(native_path, errors="replace") as f:
            nat = f.read().splitlines()
        with open(outp, errors="replace") as f:
            base = f.read().splitlines()
        if rc != 0 or len(base) != len(cases):
            res.oracle_failures.append(dict(key="c10:process-abort:portable-build", case=cases[min(len(base), len(cases) - 1)], detail=err[-300:]))
        for i in range(min(len(base), len(nat), len(cases))):
            res.distribution["build:portable"] += 1
            if base[i] != nat[i]:
                res.oracle_failures.append(dict(key="C10|portable-build|answers-differently-from-the-build-compared-with-the-specification", case=cases[i],
                                                detail=f"portable {base[i][:150]} native {nat[i][:150]}"))

    def _skippers(self, ctx, res):
        """the block models of skip_container / skip_string_unchecked (the subjects of the unchecked-skip theorems) against the real functions"""
        if ctx.get("replay") or not ctx["driver"]:
            return
        src = generate(ctx, "c17")
        with open(src) as f:
            cases = [l for l in f.read().splitlines() if l.startswith("c17 ss") or l.startswith("c17 cb ")]
        cp = os.path.join(ctx["work"], "c10skip.cases")
        with open(cp, "w") as f:
            f.write("\n".join(cases) + "\n")
        rc, err = ctx["run_lines"](ctx["vh"], ["c17", "run"], cp, cp + ".impl")
        ctx["run_lines"](ctx["driver"], [], cp, cp + ".model")
        with open(cp + ".impl", errors="replace") as f:
            impl = f.read().splitlines()
        with open(cp + ".model", errors="replace") as f:
            model = f.read().splitlines()
        if rc != 0 or len(impl) != len(cases):
            res.oracle_failures.append(dict(key="c10:skippers:process-abort", case=cases[min(len(impl), len(cases) - 1)], detail=err[-300:]))
        for i in range(min(len(impl), len(cases))):
            res.evaluations += 1
            op = cases[i].split(" ")[1]
            res.distribution["skipper:" + op] += 1
            m = model[i] if i < len(model) else None
            if impl[i] != m:
                res.model_disagreements.append(dict(key=f"c10:skipper-{op}:model", case=cases[i], detail=f"impl {impl[i]} model {m}"))

    def _explore(self, ctx, res, name, wellformed):
        cases_path = generate(ctx, name)
        impl, model, crashed, err = run_stream(ctx, name, cases_path)
        with open(cases_path) as f:
            cases = f.read().splitlines()
        if crashed or len(impl) != len(cases):
            idx = min(len(impl), len(cases) - 1)
            res.oracle_failures.append(dict(key=f"{name}:process-abort", case=cases[idx], detail=f"harness died after {len(impl)} cases: {err[-300:]}"))
        n = min(len(impl), len(cases))
        pid = self.pid
        span_queries = []
        for i in range(n):
            res.evaluations += 1
            case = cases[i]
            I = ctx["parse_fields"](impl[i])
            M = ctx["parse_fields"](model[i]) if model and i < len(model) else {}
            if len(res.samples) < 6 and i % max(1, n // 6) == 0:
                res.samples.append({"case": case[:200], "impl": impl[i][:300], "model": (model[i][:200] if model and i < len(model) else None)})
            if "spec" not in M:
                if model is not None:
                    res.model_disagreements.append(dict(key=f"{name}:model-output-missing", case=case, detail=str(model[i] if i < len(model) else None)[:100]))
                continue
            t = unhex(case.split(" ")[1])
            path = case.split(" ")[2]
            sp = M["spec"]
            res.distribution["spec=" + sp.split(":")[0]] += 1
            if sp.startswith("F:") and path != "-":
                res.nontrivial(case)
            want = spec_get_expect(M)
            # correspondence: model of the checked walker vs implementation (verdict, span, not-found category)
            mg = M["m.get"]
            for fld, mfld in (("get", "m.get"), ("get_str", "m.get_str")):
                if fld in I:
                    got = I[fld]
                    mm = M[mfld]
                    mm_c = mm if mm.startswith("F:") else ("E:NotFound" if ":NotFound:" in mm else "E:other")
                    got_c = got if got.startswith("F:") else ("E:NotFound" if got == "E:NotFound" else ("PANIC" if got == "PANIC" else "E:other"))
                    if mm_c != got_c:
                        res.model_disagreements.append(dict(key=f"{name}:{fld}", case=case, detail=f"impl {got} model {mm}"))
            # correspondence: model of the unchecked walker (block skippers, get_next_token) vs implementation: found span / failure
            if "getu" in I and "m.getu" in M:
                gu, mu = I["getu"], M["m.getu"]
                gu_c = gu if gu.startswith("F:") else ("PANIC" if gu == "PANIC" else "E")
                mu_c = mu if mu.startswith("F:") else "E"
                if gu_c != mu_c:
                    res.model_disagreements.append(dict(key=f"{name}:getu", case=case, detail=f"impl {gu} model {mu}"))
            for fld in self.CHECKED + (self.UNCHECKED if wellformed else []):
                if fld not in I:
                    continue
                got = I[fld]
                if got == "PANIC":
                    res.oracle_failures.append(dict(key=f"{pid}|{fld}|panic", case=case, detail="panicked"))
                    continue
                if fld in self.UNCHECKED and M.get("wf") != "A":
                    continue
                if fld in self.UNCHECKED and not sp.startswith("F:"):
                    # on well-formed input an unresolvable path must fail (any error)
                    if got.startswith("F:"):
                        res.oracle_failures.append(dict(key=f"{pid}|{fld}|finds-nonexistent-path", case=case, detail=f"impl {got} spec {sp}"))
                    continue
                exp = want
                if fld in ("get_str", "get_string", "get_faststr", "getu_str") and sp.startswith("F:"):
                    exp = sp           # str carriers are valid UTF-8 by type
                g = got if got.startswith("F:") else "E"
                if g.startswith("F:hex:") and exp.startswith("F:"):
                    _, a_, b_ = exp.split(":")
                    if unhex(g[6:]) == t[int(a_):int(b_)]:
                        g = exp
                if g != exp:
                    cls = "wrong-span" if (g.startswith("F:") and exp.startswith("F:")) else ("returns-value-spec-rejects" if g.startswith("F:") else "fails-on-resolvable-path")
                    res.oracle_failures.append(dict(key=f"{pid}|{fld}|{cls}", case=case, detail=f"impl {got} spec {sp} pre8={M.get('pre8')}"))
                if sp in ("missing",) and got.startswith("E:") and got != "E:NotFound" and fld in self.CHECKED:
                    res.notes.append("") if False else None
            if wellformed and M.get("wfs") == "A":
                # DOM / lazy / owned-lazy pointer answer by content
                if sp.startswith("F:"):
                    _, a, b = sp.split(":")
                    raw = t[int(a):int(b)]
                    for fld in ("lazy",):
                        if fld in I and I[fld] != "F:" + (raw.hex() or "-"):
                            res.oracle_failures.append(dict(key=f"{pid}|{fld}.pointer|differs-from-get", case=case, detail=f"{I[fld][:100]} vs raw {raw[:50]!r}"))
                    for fld in ("dom", "owned"):
                        if fld in I and not I[fld].startswith("F:"):
                            res.oracle_failures.append(dict(key=f"{pid}|{fld}.pointer|misses-resolvable-path", case=case, detail=I[fld][:100]))
                else:
                    for fld in ("dom", "lazy", "owned"):
                        if fld in I and I[fld].startswith("F:"):
                            res.oracle_failures.append(dict(key=f"{pid}|{fld}.pointer|finds-nonexistent-path", case=case, detail=I[fld][:100]))
                if I.get("same") == "NEQ":
                    res.oracle_failures.append(dict(key=f"{pid}|get-vs-dom|value-differs", case=case, detail="raw text of get does not parse to the DOM lookup result"))
            if not wellformed:
                for fld in ("many",):
                    v = I.get(fld, "")
                    if v == "PANIC":
                        res.oracle_failures.append(dict(key=f"{pid}|{fld}|panic", case=case, detail="panicked"))
                    if v.startswith("S:"):
                        spans = [x for x in v[2:].split(",") if x != "N"]
                        if any("outside" in x for x in spans):
                            res.oracle_failures.append(dict(key=f"{pid}|{fld}|span-outside-input", case=case, detail=v[:120]))
                        elif spans:
                            span_queries.append((i, fld, spans))
                if I.get("schema") == "PANIC":
                    res.oracle_failures.append(dict(key=f"{pid}|schema|panic", case=case, detail="panicked"))
        if span_queries and ctx["driver"]:
            qp = cases_path + ".spans"
            with open(qp, "w") as f:
                for (i, fld, spans) in span_queries:
                    f.write(f"c14v {cases[i].split(' ')[1]} {','.join(spans)}\n")
            ctx["run_lines"](ctx["driver"], [], qp, qp + ".out")
            with open(qp + ".out") as f:
                outs = f.read().splitlines()
            for (i, fld, spans), o in zip(span_queries, outs):
                res.evaluations += 1
                if "BAD" in o:
                    res.oracle_failures.append(dict(key=f"{pid}|{fld}|slot-not-wellformed-value", case=cases[i], detail=o[:200]))


class C14(C10):
    rule = ("documents of the C10 generator with one or two random mutations (truncate, delete/substitute/insert a byte or structural "
            "character, invalid UTF-8, bad escapes, trailing bytes) and sampled prefixes, x paths of the unmutated document; checked get on "
            "6 carriers, get_many, get_by_schema; non-trivial = the checked walker returns a value")
    trusted = ["get_many slots are validated span-by-span by the specification (Spec.value + UTF-8 of the prefix); get_by_schema only for "
               "absence of panics here (its result is decided in C11)"]
    assumptions = []

    def explore(self, ctx, res):
        self._explore(ctx, res, "c14", wellformed=False)


class C12(Prop):
    rule = ("containers of every size 0..8 (arrays and objects, nested values, escaped and duplicate keys, whitespace variants, trailing "
            "bytes after the container), each also with one random mutation and a random truncation; every iterator is drained and polled "
            "3 more times; non-trivial = at least one item is yielded")
    trusted = ["unchecked iterators are compared with the checked ones on well-formed containers only"]
    assumptions = []

    def explore(self, ctx, res):
        name = "c12"
        cases_path = generate(ctx, name)
        impl, model, crashed, err = run_stream(ctx, name, cases_path)
        with open(cases_path) as f:
            cases = f.read().splitlines()
        if crashed or len(impl) != len(cases):
            idx = min(len(impl), len(cases) - 1)
            res.oracle_failures.append(dict(key="c12:process-abort", case=cases[idx], detail=f"harness died after {len(impl)} cases: {err[-300:]}"))
        n = min(len(impl), len(cases))
        for i in range(n):
            res.evaluations += 1
            case = cases[i]
            I = ctx["parse_fields"](impl[i])
            M = ctx["parse_fields"](model[i]) if model and i < len(model) else {}
            if len(res.samples) < 6 and i % max(1, n // 6) == 0:
                res.samples.append({"case": case[:200], "impl": impl[i][:300], "model": (model[i][:300] if model and i < len(model) else None)})
            if "spec.arr" not in M:
                if model is not None:
                    res.model_disagreements.append(dict(key="c12:model-output-missing", case=case, detail=str(model[i] if i < len(model) else None)[:100]))
                continue
            wf = case.split(" ")[2] == "w"
            t = unhex(case.split(" ")[1])
            if M.get("lib") != "A":
                res.model_disagreements.append(dict(key="c12:library-drain-vs-spec", case=case, detail="Impl.drainArr/drainObj differ from Spec.arrayItems/objectItems"))
            for kind, fields, ufields in (("arr", ["arr", "arr_str", "arr_fs"], ["arr_u", "lv_arr"]), ("obj", ["obj", "obj_str", "obj_bytes"], ["obj_u", "lv_obj"])):
                sitems, send = M[f"spec.{kind}"].split("|")
                mitems, mend = M[f"m.{kind}"].split("|")
                if sitems != "-":
                    res.nontrivial(case)
                # model vs spec (the theorem, observed) on valid UTF-8: same items, END iff END
                if M.get("utf8") == "A" and (mitems, mend == "END") != (sitems, send == "END"):
                    res.model_disagreements.append(dict(key=f"c12:model-vs-spec:{kind}", case=case, detail=f"{M[f'm.{kind}']} vs {M[f'spec.{kind}']}"))
                # correspondence: the model of the unchecked iterator (skip_one_unchecked: block skippers, skip_number_unsafe) vs the real one
                ufld = f"{kind}_u"
                if wf and ufld in I and f"mu.{kind}" in M and I[ufld] not in ("PANIC", "notarr", "notobj", "R"):
                    ui, ue, _x = I[ufld].split("|")
                    mi, me = M[f"mu.{kind}"].split("|")
                    if (ui, ue == "END") != (mi, me == "END"):
                        res.model_disagreements.append(dict(key=f"c12:unchecked-iterator-model:{kind}", case=case, detail=f"impl {I[ufld][:150]} model {M[f'mu.{kind}'][:150]}"))
                for fld in fields + (ufields if wf else []):
                    if fld not in I:
                        continue
                    v = I[fld]
                    if v == "PANIC":
                        res.oracle_failures.append(dict(key=f"C12|{fld}|panic", case=case, detail="panicked"))
                        continue
                    if v in ("notarr", "notobj", "R"):
                        if send == "END":
                            res.oracle_failures.append(dict(key=f"C12|{fld}|refuses-wellformed-container", case=case, detail=v))
                        continue
                    items, end, extra = v.split("|")
                    if extra != "0":
                        res.oracle_failures.append(dict(key=f"C12|{fld}|yields-after-end-or-error", case=case, detail=v[:150]))
                    is_bytes = fld in ("arr", "obj", "obj_bytes")
                    if fld in ufields and send != "END":
                        continue
                    # carriers that are not `str` by type validate UTF-8: items are yielded while the
                    # text parsed so far is valid UTF-8, then one error
                    inv = int(M.get("inv", "0"))
                    sl = [] if sitems == "-" else sitems.split(",")
                    exp_end = "END" if send == "END" else "E"
                    if is_bytes and M.get("utf8") == "R":
                        kept = [x for x in sl if int(x.split(":")[-1]) <= inv]
                        if len(kept) < len(sl) or send != "END":
                            exp_end = "E"
                        sl = kept
                    # FastStr/Bytes carriers copy short values: those items are reported by content
                    il = [] if items == "-" else items.split(",")
                    norm = []
                    for k_, it in enumerate(il):
                        parts = it.split(":")
                        if parts[-1].startswith("hex") and k_ < len(sl):
                            sp_ = sl[k_].split(":")
                            if unhex(parts[-1][3:]) == t[int(sp_[-2]):int(sp_[-1])]:
                                parts = parts[:-1] + sp_[-2:]
                        norm.append(":".join(parts))
                    exp_items = ",".join(sl) if sl else "-"
                    items_n = ",".join(norm) if norm else "-"
                    g_end = "END" if end == "END" else "E"
                    if (items_n, g_end) != (exp_items, exp_end):
                        if g_end == "E" and exp_end == "END":
                            key = f"C12|{fld}|error-on-wellformed-container"
                        elif items_n != exp_items:
                            key = f"C12|{fld}|wrong-items"
                        else:
                            key = f"C12|{fld}|no-error-at-violation"
                        res.oracle_failures.append(dict(key=key, case=case, detail=f"impl {v[:150]} spec {M[f'spec.{kind}'][:150]} inv={inv}"))
                    # correspondence: model of the checked slice iterator (items + end/error)
                    if fld in ("arr", "obj"):
                        me = "END" if mend == "END" else "E"
                        if (items_n, g_end) != (mitems, me):
                            res.model_disagreements.append(dict(key=f"c12:{fld}", case=case, detail=f"impl {v[:120]} model {M[f'm.{kind}'][:120]}"))
                # correspondence of error category for the checked slice iterator is implicit in END/E


# ------------------------------------------------------------------------------------------
# C05

class C05(Prop):
    rule = ("values of the serde data model generated from one PRNG state (all integer widths incl. 128-bit, f64/f32 incl. non-finite, chars, "
            "strings of every length 0..260 with escapables/multi-byte characters at random positions, bytes, options, sequences, tuples, maps "
            "with string/integer/bool/char/float/invalid keys, structs, all four variant shapes, nesting <= 5); every value goes through "
            "to_vec, to_string, to_writer on Vec / BytesMut writer / BufferedWriter / io::BufWriter (default and 7-byte capacity), the pretty "
            "variants, a sink failing after n bytes for 5-7 values of n, and the same BufferedWriter used again after a failed write; non-trivial = the value contains a string needing an escape, a "
            "container or a float")
    trusted = ["itoa/ryu texts are carried as bytes: integers are compared with Rust's own Display, floats by value (Spec.f64Bits of the text)",
               "the driver re-parses the implementation's output with Spec.docTree and re-renders it with the proved serializer model"]
    assumptions = ["serde's Serialize side is the harness' own enum (one constructor per serializer method)"]

    def explore(self, ctx, res):
        name = "c05"
        cases_path = generate(ctx, name)
        impl_path = cases_path + ".impl"
        rc, err = ctx["run_lines"](ctx["vh"], [name, "run"], cases_path, impl_path)
        with open(cases_path) as f:
            cases = f.read().splitlines()
        with open(impl_path, errors="replace") as f:
            impl = f.read().splitlines()
        if rc != 0 or len(impl) != len(cases):
            idx = min(len(impl), len(cases) - 1)
            res.oracle_failures.append(dict(key="c05:process-abort", case=cases[idx], detail=f"harness died after {len(impl)} cases: {err[-300:]}"))
        n = min(len(impl), len(cases))
        qp = cases_path + ".query"
        parsed = []
        with open(qp, "w") as q:
            for i in range(n):
                I = ctx["parse_fields"](impl[i])
                parsed.append(I)
                q.write(f"c05 {I.get('sv','?')} {I.get('compact','?')} {I.get('pretty','?')}\n")
        model = None
        if ctx["driver"]:
            ctx["run_lines"](ctx["driver"], [], qp, qp + ".out")
            with open(qp + ".out", errors="replace") as f:
                model = f.read().splitlines()
        for i in range(n):
            res.evaluations += 1
            case = cases[i]
            I = parsed[i]
            M = ctx["parse_fields"](model[i]) if model and i < len(model) else {}
            sv = I.get("sv", "")
            full = f"{case}  sv={sv[:300]}"
            if len(res.samples) < 6 and i % max(1, n // 6) == 0:
                res.samples.append({"case": case, "impl": impl[i][:300], "model": (model[i][:200] if model and i < len(model) else None)})
            if any(ch in sv for ch in "[{VF") or "5c" in sv:
                res.nontrivial(case)
            if I.get("compact") == "PANIC" or impl[i] == "PANIC":
                res.oracle_failures.append(dict(key="C05|to_vec|panic", case=full, detail="panicked"))
                continue
            v = M.get("verdict")
            res.distribution["verdict=" + str(v)] += 1
            if v is None:
                if model is not None:
                    res.model_disagreements.append(dict(key="c05:model-output-missing", case=full, detail=str(model[i] if i < len(model) else None)[:100]))
            elif v not in ("ok", "ok-error"):
                res.oracle_failures.append(dict(key=f"C05|to_vec|{v.lower()}", case=full, detail=f"{I.get('compact','')[:120]}"))
            elif v == "ok":
                if M.get("utf8") != "A":
                    res.oracle_failures.append(dict(key="C05|to_vec|output-not-utf8", case=full, detail=I.get("compact", "")[:120]))
                if M.get("prettyjson") != "A":
                    res.oracle_failures.append(dict(key="C05|to_vec_pretty|not-json", case=full, detail=I.get("pretty", "")[:120]))
                if M.get("compact") != "A":
                    res.model_disagreements.append(dict(key="c05:compact-bytes-vs-serializer-model", case=full, detail=I.get("compact", "")[:120]))
                if M.get("pretty") != "A":
                    # pretty must be compact + prescribed indentation: the model re-renders the same value
                    res.oracle_failures.append(dict(key="C05|to_vec_pretty|not-compact-plus-indentation", case=full, detail=I.get("pretty", "")[:160]))
            w = I.get("writers", "")
            if w.startswith("DIFF"):
                for d in w[5:].split(";"):
                    wn = d.split(":")[0]
                    res.oracle_failures.append(dict(key=f"C05|{wn}|bytes-differ-from-to_vec", case=full, detail=d[:160]))
            if I.get("prettywriters") == "DIFF":
                res.oracle_failures.append(dict(key="C05|pretty-writers|bytes-differ", case=full, detail=""))
            fl = I.get("failing", "ok")
            if fl.startswith("BAD"):
                res.oracle_failures.append(dict(key="C05|failing-writer|error-swallowed-or-not-a-prefix", case=full, detail=fl[:200]))
            ru = I.get("reuse", "ok")
            if ru.startswith("BAD"):
                res.oracle_failures.append(dict(key="C05|writer-reused-after-error|output-is-not-the-value", case=full, detail=ru[:200]))


# ------------------------------------------------------------------------------------------
# C03

class C03(StreamProp):
    rule = ("fixed corner cases, the repository's benchmark corpus (files < 200 kB in quick, < 3 MB in thorough), generated documents "
            "(depth <= 5, duplicate keys allowed, long strings, whitespace variants) with a fifth of them mutated, and an alignment sweep "
            "(string and number elements at offset 0..64 x length 0..130); each text goes through the whole-input in-place parse "
            "(from_slice and from_str), the second document of a stream (copy path), a field embedded in a typed struct (twice), raw-number "
            "mode (whole input, second stream document, embedded field) and lossy mode; the tree is dumped through the public read API only and compared with the specification's tree; "
            "non-trivial = the text is accepted and contains a container or a string")
    trusted = ["number classification/rounding is the executable Spec.Num (exact big-integer arithmetic); see C07 for what is proved about it"]
    assumptions = []
    # the portable build (SSE2 vectors, `v256.rs` built from two 128-bit halves, the fallback helpers): what a user without AVX2 gets
    variant_builds = [("base", "--cfg sonic_rs_verif -C target-cpu=x86-64")]
    streams = [("c03", [("corr", "whole", "m.dom", "dump")] + [("oracle", f, "spec", "dump") for f in ("whole", "whole_str", "embedded")]
                + [("oracle", "stream2", "spec.pre", "dump"), ("oracle", "rawnum", "spec.raw.pre", "dump"), ("oracle", "lossy", "spec.lossy.pre", "dump"),
                   ("oracle", "rawnum2", "spec.raw.pre", "dump"), ("oracle", "rawnum_emb", "spec.raw", "dump")])]

    def classify(self, stream, field, case, got, want, impl, model):
        t = unhex(case.split(" ")[1])
        if field in ("stream2", "rawnum", "rawnum2", "lossy") and re.match(rb"^[ \t\r\n]*-?0[0-9]", t):
            return None     # stream entry points: `00` is two documents (see C02)
        if want == "R":
            cls = "accepts-what-spec-rejects"
        elif got == "R":
            cls = "rejects-what-spec-accepts"
        else:
            # find the first differing leaf kind
            cls = "tree-differs"
            import itertools
            for a, b in itertools.zip_longest(re.findall(r"[UIFSR][0-9a-f-]*|[ntf]", got), re.findall(r"[UIFSR][0-9a-f-]*|[ntf]", want)):
                if a != b:
                    if a and b and a[0] in "UIF" and b[0] in "UIF":
                        if a.lstrip("F").strip("0") == "" and b.startswith("F8") and b[2:].strip("0") == "":
                            cls = "sign-of-zero-lost"
                        else:
                            cls = "number-differs"
                    elif a and b and a[0] == "S" and b[0] == "S":
                        cls = "string-differs"
                    break
        return f"C03|{field}|{cls}"

    def nontrivial_case(self, I, M):
        w = I.get("whole", "R")
        return w != "R" and any(ch in w for ch in "[{S")


# ------------------------------------------------------------------------------------------
# C07

class C07(Prop):
    rule = ("fixed boundary literals, zero-padded / huge-exponent literals of moderate value, every digit count 1..800 (every 7th in quick) as "
            "integer, fraction and mixed literal, every power-of-ten exponent -400..400 (every 3rd in quick) with 1-, 4- and 17-digit "
            "mantissas, exact 800-digit decimal expansions and 17/18/21-digit roundings of random doubles (halfway / near-halfway), 19/20-digit "
            "integer boundaries, fractions of length 0..40 after 1..20 integer digits (SIMD alignment of the 16-digit reader), random grammar "
            "strings; non-trivial = the literal is grammatical and not a one-digit integer")
    trusted = ["the float back end (Clinger fast path, Eisel-Lemire, big-decimal fallback, biased_fp_to_float) is NOT proved: its output is "
               "compared bit-for-bit with the exact specification Spec.roundF64 (big-integer round-half-even) on every case",
               "Spec.roundF64 itself is cross-checked against Rust's str::parse::<f64> on every case (spec adequacy)"]
    assumptions = ["`-0` with an integer target is rejected, as serde_json does (C04 governs); literals shorter than 10^8 bytes"]
    WIDTHS = ["i8", "u8", "i16", "u16", "i32", "u32", "i64", "u64", "i128", "u128"]

    def explore(self, ctx, res):
        name = "c07"
        cases_path = generate(ctx, name)
        impl, model, crashed, err = run_stream(ctx, name, cases_path)
        with open(cases_path) as f:
            cases = f.read().splitlines()
        if crashed or len(impl) != len(cases):
            idx = min(len(impl), len(cases) - 1)
            res.oracle_failures.append(dict(key="c07:process-abort", case=cases[idx], detail=f"harness died after {len(impl)} cases: {err[-300:]}"))
        n = min(len(impl), len(cases))
        for i in range(n):
            res.evaluations += 1
            case = cases[i]
            I = ctx["parse_fields"](impl[i])
            M = ctx["parse_fields"](model[i]) if model and i < len(model) else {}
            t = unhex(case.split(" ")[1])
            if len(res.samples) < 6 and i % max(1, n // 6) == 0:
                res.samples.append({"case": t[:80].decode("latin1"), "impl": impl[i][:300], "model": (model[i][:300] if model and i < len(model) else None)})
            if "spec.gram" not in M:
                if model is not None:
                    res.model_disagreements.append(dict(key="c07:model-output-missing", case=case, detail=str(model[i] if i < len(model) else None)[:100]))
                continue
            gram = M["spec.gram"] == "A"
            if gram and len(t) > 1:
                res.nontrivial(case)
            res.distribution["grammatical=" + str(gram)] += 1
            short = t[:60].decode("latin1")

            def fail(field, cls, detail):
                res.oracle_failures.append(dict(key=f"C07|{field}|{cls}", case=case, detail=f"{short}: {detail}"))

            for fld in I:
                if I[fld] == "PANIC":
                    fail(fld, "panic", "panicked")
            if not gram:
                for fld in ["f64", "f32", "dom", "sjv"] + self.WIDTHS:
                    if fld in I and I[fld] not in ("R", "PANIC"):
                        fail(fld, "accepts-ungrammatical-literal", I[fld])
                continue
            # classification and value of the any-typed targets
            sd = M["spec.dom"]
            for fld in ("dom", "sjv"):
                if fld in I and I[fld] != sd and I[fld] != "PANIC":
                    exp_digits = re.search(rb"[eE][+-]?0*([0-9]+)$", t)
                    if exp_digits and len(exp_digits.group(1)) >= 4 and sd != I[fld]:
                        cls = "huge-exponent-literal-misread"
                    elif sd.startswith("F8000000000000000") and I[fld] == "F0000000000000000":
                        cls = "sign-of-zero-lost"
                    elif sd[0] != I[fld][0]:
                        cls = "wrong-classification"
                    else:
                        cls = "wrong-value"
                    fail(fld, cls, f"impl {I[fld]} spec {sd}")
            sf = M["spec.f64"]
            if "f64" in I and I["f64"] != sf and I["f64"] != "PANIC":
                exp_digits = re.search(rb"[eE][+-]?0*([0-9]+)$", t)
                cls = "huge-exponent-literal-misread" if (exp_digits and len(exp_digits.group(1)) >= 4) else ("sign-of-zero-lost" if sf == "8000000000000000" and I["f64"] == "0000000000000000" else "not-nearest-f64")
                fail("f64", cls, f"impl {I['f64']} spec {sf}")
            # f32 = the f64 result narrowed once
            if "f32" in I and I["f32"] != "PANIC":
                import struct
                if sf == "R":
                    exp32 = "R"
                else:
                    x = struct.unpack(">d", bytes.fromhex(sf))[0]
                    try:
                        exp32 = struct.pack(">f", x).hex()
                    except OverflowError:
                        exp32 = "7f800000" if x > 0 else "ff800000"
                if I["f32"] != exp32 and not (exp32 in ("7f800000", "ff800000")):
                    fail("f32", "not-f64-narrowed-once", f"impl {I['f32']} expected {exp32}")
            for w in self.WIDTHS:
                if t == b"-0":
                    continue    # `-0` with an integer target: serde_json's behaviour governs (C04)
                if w in I and I[w] != M.get("spec." + w) and I[w] != "PANIC":
                    cls = "accepts-out-of-range-or-non-integer" if M.get("spec." + w) == "R" else ("rejects-in-range-integer" if I[w] == "R" else "wrong-integer")
                    fail(w, cls, f"impl {I[w]} spec {M.get('spec.' + w)}")
            # correspondence: digit machine model
            md = M.get("m.dom")
            if md and md != "F?" and "dom" in I and I["dom"] != md:
                res.model_disagreements.append(dict(key="c07:digit-machine", case=case, detail=f"{short}: impl {I['dom']} model {md}"))
            if M.get("contract") == "BAD":
                res.model_disagreements.append(dict(key="c07:float-contract(sig,e10,trunc)-vs-exact-value", case=case, detail=short))
            if M.get("m.stop") != "A":
                res.model_disagreements.append(dict(key="c07:digit-machine-end-index", case=case, detail=short))
            # adequacy of the specification against std and serde_json
            if I.get("std") not in (None, sf) and not (sf == "R" and I.get("std", "").startswith(("7ff0", "fff0"))):
                if len(res.adequacy) < 30:
                    res.adequacy.append(f"{short}: std {I.get('std')} spec {sf}")


# ------------------------------------------------------------------------------------------
# C08

class C08(Prop):
    rule = ("f64: every biased exponent 0..2046 x 3 (quick) / 6 (thorough) mantissas incl. 0, 1, all-ones, both signs, the neighbours of every "
            "power of ten 1e-320..1e308, special values, random finite doubles; f32: every exponent x {0,1,max} mantissa and random values "
            "(all 2^32 in the thorough tier, harness-side only); integers: all i8/u8, every (37th in quick) i16/u16, boundaries and random "
            "i32/u32/i64/u64/i128/u128; raw numbers: fixed and generated literals, bare and quoted, incl. ungrammatical ones; "
            "non-trivial = the value is not a one-digit integer")
    trusted = ["ryu / itoa are assumed to print a shortest round-tripping / canonical decimal; what is checked per case: the text is one JSON "
               "number token (Spec.number) whose exact value (Spec.Num, big integers) rounds to the same bits, and the library reads it back"]
    assumptions = ["reading back rests on C07 (rounding back end validated by correspondence)"]

    def explore(self, ctx, res):
        name = "c08"
        cases_path = generate(ctx, name)
        impl_path = cases_path + ".impl"
        rc, err = ctx["run_lines"](ctx["vh"], [name, "run"], cases_path, impl_path)
        with open(cases_path) as f:
            cases = f.read().splitlines()
        with open(impl_path, errors="replace") as f:
            impl = f.read().splitlines()
        if rc != 0 or len(impl) != len(cases):
            idx = min(len(impl), len(cases) - 1)
            res.oracle_failures.append(dict(key="c08:process-abort", case=cases[idx], detail=f"harness died after {len(impl)} cases: {err[-300:]}"))
        n = min(len(impl), len(cases))
        qp = cases_path + ".query"
        qmap = []
        with open(qp, "w") as q:
            for i in range(n):
                I = ctx["parse_fields"](impl[i])
                kind = cases[i].split(" ")[1]
                for fld in ("text", "domtext", "raw"):
                    v = I.get(fld)
                    if v and re.fullmatch(r"[0-9a-f]+|-", v):
                        k = {"f64": "f", "f32": "g", "int": "i", "raw": "f"}[kind]
                        q.write(f"c08v {k} {v}\n")
                        qmap.append((i, fld))
        outs = []
        if ctx["driver"]:
            ctx["run_lines"](ctx["driver"], [], qp, qp + ".out")
            with open(qp + ".out", errors="replace") as f:
                outs = f.read().splitlines()
        V = {}
        for (i, fld), o in zip(qmap, outs):
            V[(i, fld)] = ctx["parse_fields"](o)
        for i in range(n):
            res.evaluations += 1
            case = cases[i]
            p = case.split(" ")
            kind = p[1]
            I = ctx["parse_fields"](impl[i])
            if len(res.samples) < 6 and i % max(1, n // 6) == 0:
                res.samples.append({"case": case, "impl": impl[i][:200], "spec": V.get((i, "text")) or V.get((i, "raw"))})
            if impl[i] == "PANIC":
                res.oracle_failures.append(dict(key=f"C08|{kind}|panic", case=case, detail="panicked"))
                continue

            def fail(cls, detail):
                res.oracle_failures.append(dict(key=f"C08|{kind}|{cls}", case=case, detail=detail))

            if kind in ("f64", "f32"):
                bits = p[2]
                if len(bits.strip("08")) > 0:
                    res.nontrivial(case)
                if I.get("text") in ("ERR", None):
                    fail("serialize-error", impl[i][:100]); continue
                sv = V.get((i, "text"), {})
                if sv.get("gram") != "A":
                    fail("text-not-a-json-number", unhex(I["text"]).decode("latin1"))
                elif sv.get("val") != bits:
                    fail("text-denotes-another-value", f"{unhex(I['text']).decode('latin1')} denotes {sv.get('val')}")
                if I.get("back") != bits:
                    fail("does-not-read-back-bit-identically", f"text {unhex(I['text']).decode('latin1')} back {I.get('back')}")
                if kind == "f64":
                    if I.get("domback") != "F" + bits:
                        fail("dom-round-trip-differs", f"domtext {unhex(I.get('domtext','-')).decode('latin1')} back {I.get('domback')}")
                    if I.get("domtext") != I.get("text") or I.get("vecsame") != "true":
                        fail("display-to_string-to_vec-disagree", impl[i][:160])
            elif kind == "int":
                val = p[3]
                if len(val) > 1:
                    res.nontrivial(case)
                sv = V.get((i, "text"), {})
                if sv.get("gram") != "A" or sv.get("val") != val:
                    fail("text-is-not-the-canonical-decimal", f"{I.get('text')} spec {sv}")
                if I.get("back") != val:
                    fail("does-not-read-back", impl[i][:120])
                if "dom" in I and I["dom"] not in ("U" + val, "I" + val):
                    fail("dom-round-trip-differs", impl[i][:120])
            elif kind == "raw":
                lit = unhex(p[2])
                res.nontrivial(case)
                # a raw number holds a grammatical literal, verbatim
                q_ = ctx  # noqa
                r = I.get("raw")
                if r == "R":
                    # rejected: fine when the literal is ungrammatical; the grammar verdict comes from the driver on the literal
                    res.distribution["raw-rejected"] += 1
                    gv = None
                else:
                    sv = V.get((i, "raw"), {})
                    if sv.get("gram") != "A":
                        fail("holds-ungrammatical-literal", f"{lit!r} -> {r}")
                    src_lit = lit if p[3] == "q" else lit.strip(b" \t\r\n")
                    if unhex(r) != src_lit:
                        fail("not-the-source-literal", f"{lit!r} -> {unhex(r)!r}")
                    if I.get("ser") != r:
                        fail("not-serialized-verbatim", impl[i][:120])
                    if I.get("acc") != "true":
                        fail("accessors-disagree-with-parsing-the-literal", impl[i][:120])
        # completeness for raw numbers: every grammatical literal must be accepted (second query)
        rq = cases_path + ".rawq"
        idxs = []
        with open(rq, "w") as q:
            for i in range(n):
                p = cases[i].split(" ")
                if p[1] == "raw" and p[2] != "-":
                    q.write(f"c08v f {p[2]}\n")
                    idxs.append(i)
        if ctx["driver"] and idxs:
            ctx["run_lines"](ctx["driver"], [], rq, rq + ".out")
            with open(rq + ".out", errors="replace") as f:
                routs = f.read().splitlines()
            for i, o in zip(idxs, routs):
                g = ctx["parse_fields"](o).get("gram")
                I = ctx["parse_fields"](impl[i])
                if g == "A" and I.get("raw") == "R":
                    res.oracle_failures.append(dict(key="C08|raw|rejects-grammatical-literal", case=cases[i], detail=str(unhex(cases[i].split(' ')[2]))))
        if ctx["tier"] == "thorough":
            pr = subprocess.run([ctx["vh"], "c08", "allf32"], stdout=subprocess.PIPE, env=ctx["env"])
            line = pr.stdout.decode().strip()
            res.notes.append(line)
            m_ = re.search(r"failures=(\d+) first=(\S+)", line)
            if m_:
                res.evaluations += 2 ** 32 - 2 ** 24
                if int(m_.group(1)) > 0:
                    listed = [b for b in m_.group(2).split(",") if b != "-"]
                    for b in listed:
                        res.oracle_failures.append(dict(key="C08|f32|does-not-read-back-bit-identically", case=f"c08 f32 {b}", detail=line[:200]))
                    if int(m_.group(1)) > len(listed):
                        res.oracle_failures.append(dict(key="C08|f32|does-not-read-back-bit-identically", case="c08 allf32", detail=line[:200]))


# ------------------------------------------------------------------------------------------
# C18

class C18(Prop):
    rule = ("stateless model checking of the real code through the sonic_rs::verif scheduler hook: for both caches (LazyValue's Arc<String>, "
            "OwnedLazyValue's Box<Parsed>) and the thread programs R/R, R/C, RR/R, R/CXD, CXD/CXD, RCD/R, R/CD, RC/RD (2 threads, exhaustive DFS over "
            "all interleavings of their atomic operations) and R/R/R, R/R/CXD, R/C/C, RR/R/CD (3 threads, DFS capped at 600 quick / 30000 thorough "
            "schedules), with spurious failure as an extra branch at every weak compare-exchange; every explored schedule is replayed on the Lean "
            "transition system; non-trivial = the schedule contains a compare-exchange")
    trusted = ["sequential consistency at the granularity of the hooked atomic operations (orderings weaker than SC, e.g. the Relaxed load in "
               "clone_lazyraw, are not modelled)", "leaks are measured by a counting allocator around the library calls of each schedule"]
    assumptions = ["x86 never fails a compare-exchange spuriously: spurious failures exist only through the hook"]

    def explore(self, ctx, res):
        name = "c18"
        cases_path = generate(ctx, name)
        impl_path = cases_path + ".impl"
        rc, err = ctx["run_lines"](ctx["vh"], [name, "run", str(ctx["seed"]), ctx["tier"]], cases_path, impl_path)
        with open(impl_path, errors="replace") as f:
            lines = f.read().splitlines()
        with open(cases_path) as f:
            cases = f.read().splitlines()
        scen = None
        runs = []
        for l in lines:
            if l.startswith("scenario"):
                d = ctx["parse_fields"](l)
                scen = (d["kind"], d["progs"])
            elif l.startswith("sched="):
                runs.append((scen, ctx["parse_fields"](l)))
        if rc != 0:
            # the process died (a null dereference after a spurious weak-CAS failure ends in SIGSEGV)
            last = f"c18 {scen[0]} {scen[1]}" if scen else (cases[0] if cases else "c18")
            res.oracle_failures.append(dict(key="c18:process-abort", case=last, detail=f"harness died (rc={rc}) while exploring {scen}; last schedule: {runs[-1][1].get('sched') if runs else None}"))
        qp = cases_path + ".query"
        with open(qp, "w") as q:
            for (kind, progs), R in runs:
                q.write(f"c18v {kind} {progs} {R.get('sched') or '-'} {R.get('kinds') or '-'}\n")
        outs = []
        if ctx["driver"]:
            ctx["run_lines"](ctx["driver"], [], qp, qp + ".out")
            with open(qp + ".out", errors="replace") as f:
                outs = f.read().splitlines()
        seen = set()
        for i, ((kind, progs), R) in enumerate(runs):
            res.evaluations += 1
            case = f"c18 {kind} {progs} sched={R.get('sched')} kinds={R.get('kinds')}"
            if "S" in R.get("kinds", "") or "W" in R.get("kinds", ""):
                res.nontrivial(case)
            res.distribution[f"{kind}:{progs}"] += 1
            if len(res.samples) < 6 and i % max(1, len(runs) // 6) == 0:
                res.samples.append({"case": case, "impl": str(R)[:200], "model": outs[i] if i < len(outs) else None})
            # direct oracle on the implementation
            results = [x for th in R.get("res", "").split("|") for x in th.split(";") if x]
            if any(x in ("RWRONG", "RNONE", "XWRONG", "XNONE") for x in results):
                res.oracle_failures.append(dict(key=f"C18|{kind}|reader-got-wrong-result", case=case, detail=R.get("res", "")))
            rs = {x for x in results if x.startswith("R")}
            if len(rs) > 1:
                res.oracle_failures.append(dict(key=f"C18|{kind}|readers-see-different-decodings", case=case, detail=R.get("res", "")))
            if R.get("leak") != "0":
                res.oracle_failures.append(dict(key=f"C18|{kind}|decoding-leaked-or-double-freed", case=case, detail=f"allocation balance {R.get('leak')} bytes after everything was dropped"))
            if "W" in R.get("kinds", ""):
                res.oracle_failures.append(dict(key=f"C18|{kind}|weak-compare-exchange-without-retry", case=case, detail="the protocol has no retry loop; a weak CAS may fail spuriously with a null witness"))
            # correspondence: the trace must be a run of the model with the same observations
            if i < len(outs):
                M = ctx["parse_fields"](outs[i])
                if M.get("valid") != "ok" or M.get("finished") != "A" or M.get("crash") != "R" or M.get("refs") != "A":
                    res.model_disagreements.append(dict(key=f"c18:trace-not-a-model-run:{kind}", case=case, detail=outs[i][:160]))
            elif ctx["driver"]:
                res.model_disagreements.append(dict(key="c18:model-output-missing", case=case, detail=""))
        res.exhaustive = not any("capped" in l for l in lines)
        res.notes.append("schedules explored per scenario: " + ", ".join(f"{k}={v}" for k, v in sorted(res.distribution.items())))


# ------------------------------------------------------------------------------------------
# C16

class C16(Prop):
    rule = ("operation histories over the real Value API (parse, clone, drop, take, clone of a member, as_array_mut/as_object_mut, push, insert, "
            "pop, remove, values of one Deserializer/stream) replayed on the Lean reference-counting transition system: after every step the "
            "representation of every live value (arena serial number and Arc strong count of every root node, strong count and members of every "
            "owned container, via the verif hook) and the set of arenas released by that step must equal the model's; all drop orders "
            "(permutations) after fixed derivations, random histories (1/4 of them with every clone and drop executed on another thread), and a "
            "concurrent stress with barriers; non-trivial = the history shares an arena between at least two values")
    trusted = ["std::sync::Arc, Vec and hashbrown/AHashMap own and drop their elements as documented (the model's containers)",
               "the verif hook (Value::verif_shape, arena serial numbers, release log) reports the representation faithfully",
               "byte balance by a counting allocator around the library calls; thread interleavings only by stress (atomic increments commute)"]
    assumptions = ["documents of the histories have no duplicate keys (C15 covers those)", "keys are ASCII"]

    def explore(self, ctx, res):
        name = "c16"
        cases_path = generate(ctx, name)
        impl, model, crashed, err = run_stream(ctx, name, cases_path)
        with open(cases_path) as f:
            cases = f.read().splitlines()
        if crashed or len(impl) != len(cases):
            idx = min(len(impl), len(cases) - 1)
            res.oracle_failures.append(dict(key="c16:process-abort", case=cases[idx],
                                            detail=f"harness exited abnormally after {len(impl)} of {len(cases)} cases (double free / invalid access aborts the process): {err[-300:]}"))
        n = min(len(impl), len(cases))
        for i in range(n):
            case = cases[i]
            res.evaluations += 1
            mode = case.split(" ")[1]
            res.distribution["mode:" + mode] += 1
            if len(res.samples) < 6 and i % max(1, n // 6) == 0:
                res.samples.append({"case": case[:300], "impl": impl[i][:300], "model": (model[i][:300] if model and i < len(model) else None)})
            if mode == "x":
                res.nontrivial(case)
                if impl[i] != "ok":
                    res.oracle_failures.append(dict(key="C16|concurrent-sharers|" + impl[i].split("=")[0].split(":")[0], case=case, detail=impl[i][:300]))
                continue
            steps, _, tail = impl[i].partition(" content=")
            F = ctx["parse_fields"]("content=" + tail)
            if "#2" in steps or "#3" in steps:
                res.nontrivial(case)
            for op in case.split(" ")[2].split(";"):
                res.distribution["op:" + op[0]] += 1
            if steps.startswith("PANIC") or impl[i].startswith("PANIC"):
                res.oracle_failures.append(dict(key="C16|panic", case=case, detail=impl[i][:200]))
                continue
            # direct oracle
            if not tail.startswith("ok"):
                res.oracle_failures.append(dict(key="C16|surviving-value-reads-differently", case=case, detail=tail[:300]))
            if F.get("leak") != "0":
                res.oracle_failures.append(dict(key="C16|memory-not-released-or-released-twice", case=case, detail=f"allocation balance {F.get('leak')} bytes after every value was dropped"))
            released = sum(len([x for x in st.split("|")[1].split(",") if x]) for st in steps.split(";") if "|" in st) + int(F.get("released_at_end", "0") or 0)
            if str(released) != F.get("created"):
                res.oracle_failures.append(dict(key="C16|arenas-created-vs-released", case=case, detail=f"created {F.get('created')} released {released}"))
            # correspondence
            if model is not None:
                if i >= len(model):
                    res.model_disagreements.append(dict(key="c16:model-output-missing", case=case, detail=""))
                elif model[i] != steps:
                    a, b = steps.split(";"), model[i].split(";")
                    k = next((k for k in range(min(len(a), len(b))) if a[k] != b[k]), min(len(a), len(b)))
                    res.model_disagreements.append(dict(key="c16:representation-differs", case=case,
                                                        detail=f"step {k}: impl {a[k] if k < len(a) else None} model {b[k] if k < len(b) else None}"))


# ------------------------------------------------------------------------------------------
# C15

class C15(Prop):
    rule = ("operation histories over the public mutation API of Value (parse incl. duplicate keys, clone, drop, pointer reads, and pointer_mut(path) "
            "followed by push / pop / Array::insert / remove / swap_remove / truncate / clear / split_off / drain / extend_from_within / resize / "
            "retain / Object::insert / remove / retain / take / assignment / v[key]= / v[idx]= / entry().or_insert, on values that were parsed "
            "or built in memory (to_value: owned from the start), with arguments that are freshly parsed or clones of parts of other slots, wrong-kind and "
            "out-of-range variants included): fixed histories, every ordered pair of 12 array mutations on a value and its clone, every ordered pair "
            "of 10 object mutations on a duplicate-key object and its clone, and random histories; after every step the result of the operation and a "
            "canonical dump of EVERY live value must equal the reference model of plain vectors and maps (oracle), and dump + representation skeleton "
            "(which containers are still arena nodes, via the verif hook) must equal the Lean representation model (correspondence); "
            "non-trivial = the history mutates through a path")
    trusted = ["canonical dumps go through the public read API (iteration, as_*); objects are dumped one member per key (the first), sorted by key: "
               "len() and iteration of a parsed object with duplicate keys show the duplicates, which is documented behaviour and outside the map model",
               "numbers of the histories are small integers; HashMap iteration order is not part of the model",
               "not exercised: Array::append / Object::append (two containers), IterMut, resize_with, the sort_keys build",
               "Entry::key and array::IntoIter::{as_slice, as_mut_slice, as_ref, len, rest} are queried on every container of a second stream of documents; their "
               "expected results (the key; the items not yet yielded) are spelled out in the harness, not in the Lean model"]
    assumptions = ["a panic is reported as 'the reference rejects the operation'; the value must then still dump as before"]

    def explore(self, ctx, res):
        name = "c15"
        cases_path = generate(ctx, name)
        impl, model, crashed, err = run_stream(ctx, name, cases_path)
        with open(cases_path) as f:
            cases = f.read().splitlines()
        if crashed or len(impl) != len(cases):
            idx = min(len(impl), len(cases) - 1)
            res.oracle_failures.append(dict(key="c15:process-abort", case=cases[idx],
                                            detail=f"harness exited abnormally after {len(impl)} of {len(cases)} cases: {err[-300:]}"))
        n = min(len(impl), len(cases))
        for i in range(n):
            case = cases[i]
            res.evaluations += 1
            ops = case.split(" ")[1].split(";")
            if any(o.startswith("X:") and o.split(":")[2] != "-" for o in ops):
                res.nontrivial(case)
            for o in ops:
                res.distribution[o.split(":")[3] if o.startswith("X:") else o[0]] += 1
            if len(res.samples) < 6 and i % max(1, n // 6) == 0:
                res.samples.append({"case": case[:300], "impl": impl[i][:300], "model": (model[i][:300] if model and i < len(model) else None)})
            if impl[i].startswith("PANIC"):
                res.oracle_failures.append(dict(key="C15|harness-panic", case=case, detail=impl[i][:200]))
                continue
            if model is None:
                continue
            if i >= len(model):
                res.model_disagreements.append(dict(key="c15:model-output-missing", case=case, detail=""))
                continue
            M = ctx["parse_fields"](model[i])
            a = impl[i].split(";")
            # oracle: results and dumps against the reference model
            b = M.get("spec", "").split(";")
            for k in range(max(len(a), len(b))):
                ia = "|".join(a[k].split("|")[:2]) if k < len(a) else None
                if k >= len(b) or ia != b[k]:
                    op = ops[k] if k < len(ops) else "?"
                    opn = op.split(":")[3] if op.startswith("X:") else op[0]
                    what = "result" if (k < len(a) and k < len(b) and a[k].split("|")[0] != b[k].split("|")[0]) else "contents"
                    empty = op.startswith("X:") and op.split(":")[2] == "-"
                    res.oracle_failures.append(dict(key=f"C15|{opn}|{what}-differs-from-reference" + ("|empty-path" if empty else ""), case=case,
                                                    detail=f"step {k} ({op}): impl {ia} reference {b[k] if k < len(b) else None}"))
                    break
            # correspondence: the representation model
            m = M.get("model", "").split(";")
            if a != m:
                k = next((k for k in range(min(len(a), len(m))) if a[k] != m[k]), min(len(a), len(m)))
                res.model_disagreements.append(dict(key="c15:representation-model-differs", case=case,
                                                    detail=f"step {k}: impl {a[k] if k < len(a) else None} model {m[k] if k < len(m) else None}"))
        # read-only queries of the entry API and of array::IntoIter on every container of generated documents (parsed and promoted),
        # against the vector / map reference spelled out in the harness (no Lean model involved: results of queries, not of mutations)
        qp = generate(ctx, "c15q")
        with open(qp) as f:
            qcases = f.read().splitlines()
        qo = qp + ".impl"
        rc, err = ctx["run_lines"](ctx["vh"], ["c15q", "run"], qp, qo)
        with open(qo, errors="replace") as f:
            qouts = f.read().splitlines()
        if rc != 0 or len(qouts) != len(qcases):
            res.oracle_failures.append(dict(key="c15q:process-abort", case=qcases[min(len(qouts), len(qcases) - 1)] if qcases else "c15q", detail=err[-300:]))
        for case, line in zip(qcases, qouts):
            res.evaluations += 1
            res.distribution["query-documents"] += 1
            if line.startswith("q=BAD:"):
                try:
                    txt = bytes.fromhex(line[6:]).decode("utf-8", "replace")
                except ValueError:
                    txt = line
                which = "entry-key" if "entry(" in txt else "into_iter-slices"
                res.oracle_failures.append(dict(key=f"C15|query|{which}-differs-from-reference", case=case, detail=txt[:300]))
            elif line.startswith("PANIC"):
                res.oracle_failures.append(dict(key="C15|query|panic", case=case, detail=line[:100]))


# ------------------------------------------------------------------------------------------
# C06

class C06(Prop):
    rule = ("fixed corner cases (duplicate and unsorted keys, escapes, number spellings), the repository's benchmark corpus and generated well-formed "
            "documents (depth <= 5, duplicate keys, long strings, whitespace); for each: to_string / Display / to_vec / to_string_pretty of the DOM, "
            "re-parse and second pass, in default and raw-number mode, in TWO builds of the harness (default, and cargo feature sort_keys); the raw-number "
            "outputs are compared byte for byte with the Lean serializer model applied to the specification's tree (members in source order with "
            "duplicates; stably sorted by key in the sort_keys build), the default-mode outputs with the same text modulo number tokens; "
            "non-trivial = the document contains a container or a string")
    trusted = ["float printing itself (shortest round-trip digits) is C08's subject: in default mode every number token written is compared by VALUE with the source literal (exact digits for integers within u64 / i64, f64 bits otherwise; the values are read with Python's correctly rounded float())"]
    assumptions = ["inputs are well-formed JSON (others are skipped after checking that both sides reject)"]

    def explore(self, ctx, res):
        name = "c06"
        cases_path = generate(ctx, name)
        impl, model, crashed, err = run_stream(ctx, name, cases_path)
        with open(cases_path) as f:
            cases = f.read().splitlines()
        if crashed or len(impl) != len(cases):
            idx = min(len(impl), len(cases) - 1)
            res.oracle_failures.append(dict(key="c06:process-abort", case=cases[idx], detail=f"harness exited abnormally after {len(impl)} of {len(cases)} cases: {err[-300:]}"))
        sk = build_variant(ctx, "sk", features=["sort_keys"])
        impl_sk = None
        if sk:
            outp = cases_path + ".sk"
            rc, err2 = ctx["run_lines"](sk, [name, "run"], cases_path, outp)
            with open(outp, errors="replace") as f:
                impl_sk = f.read().splitlines()
            if rc != 0 or len(impl_sk) != len(cases):
                res.oracle_failures.append(dict(key="c06:process-abort:sort_keys", case=cases[min(len(impl_sk), len(cases) - 1)], detail=err2[-300:]))
        n = min(len(impl), len(cases))
        for i in range(n):
            case = cases[i]
            res.evaluations += 1
            I = ctx["parse_fields"](impl[i])
            M = ctx["parse_fields"](model[i]) if model and i < len(model) else {}
            if model is not None and not M:
                res.model_disagreements.append(dict(key="c06:model-output-missing", case=case, detail=""))
                continue
            if len(res.samples) < 6 and i % max(1, n // 6) == 0:
                res.samples.append({"case": case[:200], "impl": impl[i][:200], "model": (model[i][:200] if model and i < len(model) else None)})
            if impl[i].startswith("PANIC"):
                res.oracle_failures.append(dict(key="C06|panic", case=case, detail="implementation panicked"))
                continue
            if I.get("acc") != M.get("spec.acc"):
                # accept/reject is C02/C03's business; here only note it
                res.distribution["acc-differs(see C02/C03)"] += 1
            if I.get("acc") != "A" or M.get("spec.acc") != "A":
                res.distribution["skipped(not well-formed)"] += 1
                continue
            raw = M.get("spec.raw", "")
            if any(ch in bytes.fromhex(raw) if raw != "-" else False for ch in b"[{\""):
                res.nontrivial(case)
            for builds, J, sorted_ in ((("default", I, False),) + ((("sort_keys", ctx["parse_fields"](impl_sk[i]), True),) if impl_sk and i < len(impl_sk) else ())):
                tag = builds
                # (the sort_keys build may change the member order and nothing else: its re-parsed DOM is compared modulo that order)
                for fld in (("eqs", "fix", "disp", "vec", "pretty_eqs", "pretty_fix", "raweqs", "rawfix") if sorted_ else
                            ("eq", "eqs", "fix", "disp", "vec", "pretty_eq", "pretty_fix", "raweq", "rawfix")):
                    if J.get(fld) != "A":
                        res.oracle_failures.append(dict(key=f"C06|{tag}|{fld}", case=case, detail=f"{fld}={J.get(fld)} (s={J.get('s','')[:120]})"))
                want_raw = M.get("spec.rawsorted" if sorted_ else "spec.raw")
                want_pretty = M.get("spec.rawprettysorted" if sorted_ else "spec.rawpretty")
                if J.get("raw") != want_raw:
                    res.oracle_failures.append(dict(key=f"C06|{tag}|raw-output-differs", case=case, detail=f"impl {J.get('raw','')[:160]} spec {want_raw[:160] if want_raw else None}"))
                if J.get("rawpretty") != want_pretty:
                    res.oracle_failures.append(dict(key=f"C06|{tag}|raw-pretty-output-differs", case=case, detail=f"impl {J.get('rawpretty','')[:160]} spec {want_pretty[:160] if want_pretty else None}"))
                if shape_of(J.get("s", "")) != shape_of(want_raw or ""):
                    res.oracle_failures.append(dict(key=f"C06|{tag}|output-structure-differs", case=case, detail=f"impl {J.get('s','')[:160]} spec(raw) {want_raw[:160] if want_raw else None}"))
                # "integers keep their exact digits, floats keep their exact f64 value": token by token against the source's literals
                if not sorted_:
                    for fld_out, fld_src in (("s", want_raw), ("pretty", want_pretty)):
                        a, b2 = num_tokens(J.get(fld_out, "")), num_tokens(fld_src or "")
                        if a is not None and b2 is not None and len(a) == len(b2):
                            for x, y in zip(a, b2):
                                if not same_number(y, x):
                                    res.oracle_failures.append(dict(key=f"C06|{tag}|number-value-changed", case=case, detail=f"literal {y} written as {x}"))
                                    break
                if shape_of(J.get("pretty", "")) != shape_of(want_pretty or ""):
                    res.oracle_failures.append(dict(key=f"C06|{tag}|pretty-structure-differs", case=case, detail=f"impl {J.get('pretty','')[:160]} spec {want_pretty[:160] if want_pretty else None}"))
                res.distribution[f"build:{tag}"] += 1


# ------------------------------------------------------------------------------------------
# C13

class C13(Prop):
    rule = ("fixed corner cases (every scalar literal alone and with surrounding whitespace, escaped strings, duplicate keys) and generated well-formed "
            "values of every type (a third of them bare scalars); each text is turned into a LazyValue three ways (serde, get from a wrapping object, array "
            "iterator) and into an OwnedLazyValue five ways (serde, From<LazyValue> of the serde and get values, clone before/after the caches are "
            "loaded, take) plus both embedded in a typed struct; every lazy value is walked through its own accessors only (type, as_bool, numbers, "
            "as_str, iterators, get) and must dump as the specification's tree of the text, serialize to the trimmed text verbatim (before and after its "
            "caches are loaded), and two owned-lazy mutations (append a member; replace the first member through get_mut / pointer_mut) must serialize as "
            "the Lean one-level-parse model says (untouched members verbatim); non-trivial = a container or an escaped string")
    trusted = ["number accessors of lazy values are compared with the specification's classification (C07 is about their exactness)"]
    assumptions = ["inputs are well-formed (others are only checked for rejection by every entry)"]

    def _lossy_feature(self, ctx, res):
        """build with the cargo feature utf8_lossy: there the DOM of a text with unpaired surrogate escapes exists (U+FFFD), and the lazy and
        owned-lazy views of that text have to report the same strings and keys"""
        if ctx.get("replay"):
            return
        vb = build_variant(ctx, "lossy", features=["utf8_lossy"])
        if vb is None:
            return
        cp = generate(ctx, "c13lf")
        with open(cp) as f:
            cases = f.read().splitlines()
        rc, err = ctx["run_lines"](vb, ["c13lf", "run"], cp, cp + ".impl")
        with open(cp + ".impl", errors="replace") as f:
            impl = f.read().splitlines()
        if rc != 0 or len(impl) != len(cases):
            res.oracle_failures.append(dict(key="c13lf:process-abort", case=cases[min(len(impl), len(cases) - 1)], detail=err[-300:]))
        for i in range(min(len(impl), len(cases))):
            res.evaluations += 1
            I = ctx["parse_fields"](impl[i])
            if I.get("feat") != "1":
                res.model_disagreements.append(dict(key="c13lf:feature-not-enabled-in-variant-build", case=cases[i], detail=impl[i][:100]))
                break
            d = I.get("d")
            res.distribution["utf8_lossy-feature:" + ("dom-rejects" if d == "R" else "dom-accepts")] += 1
            if d == "R":
                continue
            if "efbfbd" in d:
                res.nontrivial(cases[i])
            for fld, what in (("l", "LazyValue"), ("o", "OwnedLazyValue"), ("ol", "OwnedLazyValue::from(LazyValue)")):
                if I.get(fld) != d:
                    res.oracle_failures.append(dict(key=f"C13|feature-utf8_lossy|{fld}|view-differs-from-dom-of-the-text", case=cases[i],
                                                    detail=f"{what} {I.get(fld, '')[:120]} dom {d[:120]}"))

    def explore(self, ctx, res):
        self._lossy_feature(ctx, res)
        name = "c13"
        cases_path = generate(ctx, name)
        impl, model, crashed, err = run_stream(ctx, name, cases_path)
        with open(cases_path) as f:
            cases = f.read().splitlines()
        if crashed or len(impl) != len(cases):
            idx = min(len(impl), len(cases) - 1)
            res.oracle_failures.append(dict(key="c13:process-abort", case=cases[idx], detail=f"harness exited abnormally after {len(impl)} of {len(cases)} cases: {err[-300:]}"))
        n = min(len(impl), len(cases))
        for i in range(n):
            case = cases[i]
            res.evaluations += 1
            I = ctx["parse_fields"](impl[i])
            M = ctx["parse_fields"](model[i]) if model and i < len(model) else {}
            if model is not None and not M:
                res.model_disagreements.append(dict(key="c13:model-output-missing", case=case, detail=""))
                continue
            if len(res.samples) < 6 and i % max(1, n // 6) == 0:
                res.samples.append({"case": case[:200], "impl": impl[i][:300], "model": (model[i][:300] if model and i < len(model) else None)})
            spec = M.get("spec")
            if spec == "R":
                for k, v in I.items():
                    if k.startswith(("l.", "o.")) and v not in ("R",) and not v.startswith("PANIC"):
                        res.distribution["accepts-ill-formed(see C02)"] += 1
                continue
            raw = M.get("raw", "")
            if M.get("kind") != "ok":
                res.model_disagreements.append(dict(key="c13:model-kind-by-first-byte-disagrees-with-tree", case=case, detail=model[i][:200]))
            if any(ch in spec for ch in "[{") or "5c" in raw:
                res.nontrivial(case)
            res.distribution["kind:" + (spec[0] if spec else "?")] += 1
            for k, v in I.items():
                if v == "PANIC":
                    res.oracle_failures.append(dict(key=f"C13|{k}|panic", case=case, detail="the library panicked"))
                    continue
                if k.startswith("l."):
                    parts = v.split("|")
                    if len(parts) != 3 or parts[0] != spec:
                        res.oracle_failures.append(dict(key=f"C13|{k}|view-differs-from-dom-of-raw-text", case=case, detail=f"view {parts[0][:200]} spec {spec[:200]}"))
                    elif parts[1] != raw or parts[2] != raw:
                        res.oracle_failures.append(dict(key=f"C13|{k}|not-verbatim", case=case, detail=f"ser {parts[1][:160]} raw {parts[2][:160]} spec {raw[:160]}"))
                elif k == "o.embedded":
                    parts = v.split("!")
                    want_back = (b'{"x":7,"l":' + bytes.fromhex(raw) + b',"o":' + bytes.fromhex(raw) + b'}').hex()
                    if len(parts) != 3 or parts[0].split("|")[0] != spec or parts[1].split("|")[0] != spec:
                        res.oracle_failures.append(dict(key=f"C13|{k}|view-differs-from-dom-of-raw-text", case=case, detail=v[:300]))
                    elif parts[2] != want_back:
                        res.oracle_failures.append(dict(key=f"C13|{k}|struct-not-reproduced", case=case, detail=f"got {parts[2][:200]} want {want_back[:200]}"))
                elif k == "d.display":
                    parts = v.split("|")
                    if len(parts) != 2 or parts[0] != raw or parts[1] != raw:
                        res.oracle_failures.append(dict(key="C13|d.display|display-is-not-the-serialization", case=case,
                                                        detail=f"LazyValue {parts[0][:120]} OwnedLazyValue {parts[1][:120] if len(parts) > 1 else ''} raw {raw[:120]}"))
                elif k == "o.tolazy":
                    # made by serializing the DOM: number texts are re-written, so only the view is compared, and the two serializations with each other
                    parts = v.split("|")
                    if len(parts) != 3 or parts[0] != spec:
                        res.oracle_failures.append(dict(key=f"C13|{k}|view-differs-from-dom-of-raw-text", case=case, detail=f"{v[:200]} spec {spec[:200]}"))
                    elif parts[1] != parts[2]:
                        res.oracle_failures.append(dict(key=f"C13|{k}|not-verbatim", case=case, detail=f"ser {parts[1][:160]} / {parts[2][:160]}"))
                elif k.startswith("o."):
                    parts = v.split("|")
                    if len(parts) != 3 or parts[0] != spec:
                        res.oracle_failures.append(dict(key=f"C13|{k}|view-differs-from-dom-of-raw-text", case=case, detail=f"{v[:200]} spec {spec[:200]}"))
                    elif parts[1] != raw or parts[2] != raw:
                        res.oracle_failures.append(dict(key=f"C13|{k}|not-verbatim", case=case, detail=f"ser {parts[1][:160]} / {parts[2][:160]} spec {raw[:160]}"))
                elif k == "m.push" and v != M.get("push"):
                    res.oracle_failures.append(dict(key="C13|m.push|mutated-container-serializes-differently", case=case, detail=f"impl {v[:200]} model {M.get('push','')[:200]}"))
                elif k == "m.cpush" and v != M.get("push"):
                    res.oracle_failures.append(dict(key="C13|m.cpush|mutated-clone-of-container-view-serializes-differently", case=case, detail=f"impl {v[:200]} model {M.get('push','')[:200]}"))
                elif k == "m.cmut" and (v.startswith("PANIC") or (":" in v and int(v.split(":")[0]) - (1 if int(v.split(":")[0]) > 0 else 0) != int(v.split(":")[1]))):
                    res.oracle_failures.append(dict(key="C13|m.cmut|mutating-a-clone-of-a-container-view-fails", case=case, detail=f"impl {v[:100]}"))
                elif k == "m.replace0" and v != M.get("repl"):
                    res.oracle_failures.append(dict(key="C13|m.replace0|mutated-container-serializes-differently", case=case, detail=f"impl {v[:200]} model {M.get('repl','')[:200]}"))


# ------------------------------------------------------------------------------------------
# C11

class C11(Prop):
    rule = ("fixed path sets (shared prefixes, a prefix that is itself a target, repeated paths, the root path, missing keys, out-of-range indices, "
            "empty containers) and generated duplicate-free documents with 1..7 shape-consistent paths derived from the document (a third of the sets with "
            "a repeated path, two thirds allowing a missing key or an out-of-range index at the end of a path), through get_many and get_many_unchecked; "
            "and generated (schema, document) pairs (schemas select a subset of the document's keys with defaults, plus absent keys) through "
            "get_by_schema; every slot is compared with the specification's single-path lookup of that path (Lean), every schema result with the "
            "specification's fill on the two trees; non-trivial = at least two paths, or a non-trivial schema")
    trusted = ["HashMap iteration order of the trie and of the schema object is not observable in the results (dumps with sorted keys)"]
    assumptions = ["documents are duplicate-free and path sets shape-consistent, as the property states (a key path and an index path through the same node panic in PointerTree::add_path)"]

    def explore(self, ctx, res):
        name = "c11"
        cases_path = generate(ctx, name)
        impl, model, crashed, err = run_stream(ctx, name, cases_path)
        with open(cases_path) as f:
            cases = f.read().splitlines()
        if crashed or len(impl) != len(cases):
            idx = min(len(impl), len(cases) - 1)
            res.oracle_failures.append(dict(key="c11:process-abort", case=cases[idx], detail=f"harness exited abnormally after {len(impl)} of {len(cases)} cases: {err[-300:]}"))
        n = min(len(impl), len(cases))
        for i in range(n):
            case = cases[i]
            res.evaluations += 1
            I = ctx["parse_fields"](impl[i])
            M = ctx["parse_fields"](model[i]) if model and i < len(model) else {}
            if model is not None and not M:
                res.model_disagreements.append(dict(key="c11:model-output-missing", case=case, detail=""))
                continue
            if len(res.samples) < 6 and i % max(1, n // 6) == 0:
                res.samples.append({"case": case[:200], "impl": impl[i][:300], "model": (model[i][:300] if model and i < len(model) else None)})
            if impl[i].startswith("PANIC"):
                res.oracle_failures.append(dict(key="C11|panic", case=case, detail="the library panicked"))
                continue
            if case.startswith("c11s "):
                res.distribution["schema"] += 1
                spec = M.get("spec")
                got = I.get("schema")
                if spec == "BADSCHEMA" or got == "BADSCHEMA":
                    continue
                if "{" in bytes.fromhex(case.split(" ")[1]).decode("utf-8", "replace")[1:]:
                    res.nontrivial(case)
                if spec == "NONOBJ":
                    if got != "Err":
                        res.oracle_failures.append(dict(key="C11|schema|non-object-schema-accepted", case=case, detail=f"impl {got[:200] if got else None}"))
                    continue
                if spec == "R":
                    if got != "Err":
                        res.distribution["schema:accepts-ill-formed-doc(see C02)"] += 1
                    continue
                if got != spec:
                    res.oracle_failures.append(dict(key="C11|schema|result-differs-from-specification", case=case, detail=f"impl {got[:300] if got else None} spec {spec[:300] if spec else None}"))
                continue
            spec = M.get("spec", "").split(",")
            npaths = len(spec)
            res.distribution[f"paths:{min(npaths, 7)}"] += 1
            if npaths >= 2:
                res.nontrivial(case)
            if M.get("wf") != "A":
                continue
            # the decoded view of every filled string slot is the decoded view of what `get` returns for that path
            sS = I.get("singleS", "").split(",")
            for fld in ("manyS", "manyuS"):
                gS = I.get(fld)
                if gS in (None, "skip", "Err"):
                    continue
                gS = gS.split(",")
                if len(gS) == len(sS):
                    for k, (a, b) in enumerate(zip(gS, sS)):
                        if a != "N" and b != "E" and a != b:
                            res.oracle_failures.append(dict(key=f"C11|{fld}|slot-decodes-differently-from-get", case=case, detail=f"slot {k}: {a[:80]} get {b[:80]}"))
                            break
            for fld in ("many", "manyu"):
                got = I.get(fld)
                if got is None or got == "skip":
                    continue
                allfound = all(x.startswith("A:") for x in spec)
                if got == "Err":
                    if allfound:
                        res.oracle_failures.append(dict(key=f"C11|{fld}|fails-although-every-path-resolves", case=case, detail=f"spec {','.join(spec)[:300]}"))
                    else:
                        res.distribution[f"{fld}:error-with-unresolvable-path"] += 1
                    continue
                slots = got.split(",")
                if len(slots) != npaths:
                    res.oracle_failures.append(dict(key=f"C11|{fld}|wrong-number-of-slots", case=case, detail=f"impl {got[:200]} for {npaths} paths"))
                    continue
                for k, (g, w) in enumerate(zip(slots, spec)):
                    if g.startswith("A:"):
                        if g != w:
                            res.oracle_failures.append(dict(key=f"C11|{fld}|slot-differs-from-single-get", case=case, detail=f"slot {k}: impl {g[:160]} spec {w[:160]}"))
                            break
                    elif g == "N":
                        if w != "MK":
                            res.oracle_failures.append(dict(key=f"C11|{fld}|empty-slot-without-missing-key", case=case, detail=f"slot {k}: impl N spec {w[:160]}"))
                            break
                if allfound and any(not g.startswith("A:") for g in slots):
                    res.oracle_failures.append(dict(key=f"C11|{fld}|slot-empty-although-path-resolves", case=case, detail=f"impl {got[:300]}"))
            # the walker model (Impl/Many.lean `walk`) on the specification's tree: against the implementation (correspondence),
            # against the tree-level single-path lookup (an instance of `walker_refines_lookup`) and that lookup against the text-level one
            walk = M.get("walk")
            if walk is not None and walk != "notree":
                res.distribution["walker-model:" + ("Err" if walk == "Err" else "ok")] += 1
                look, specd = M.get("look", ""), M.get("specd", "")
                if look != specd:
                    res.model_disagreements.append(dict(key="c11:tree-lookup-vs-text-lookup", case=case, detail=f"lookJ {look[:200]} lookup {specd[:200]}"))
                wpat = "Err" if walk == "Err" else ",".join(x[:1] for x in walk.split(";"))
                for fld in ("many", "manyu"):
                    got = I.get(fld)
                    if got is None or got == "skip" or got.startswith("LEN"):
                        continue
                    ipat = "Err" if got == "Err" else ",".join(x[:1] for x in got.split(","))
                    if ipat != wpat:
                        res.model_disagreements.append(dict(key=f"c11:walker-model-vs-{fld}", case=case, detail=f"impl {ipat[:120]} model {wpat[:120]}"))
                if walk != "Err" and walk != look:
                    res.model_disagreements.append(dict(key="c11:walker-model-vs-single-lookup", case=case, detail=f"walk {walk[:200]} look {look[:200]}"))


# ------------------------------------------------------------------------------------------
# C04

class C04(Prop):
    rule = ("42 target types (bool; every integer width incl. 128-bit; f64, f32, Vec<f64>; char; String, &str, Cow<str>; (); Option; tuples, tuple/newtype/unit "
            "structs, fixed arrays; Vec; BTreeMap with String, i32, u64, i8, bool and unit-enum keys; structs with Option / #[serde(default)] / unknown / "
            "borrowed fields and deny_unknown_fields; an enum with all four variant shapes; serde_bytes::ByteBuf; nested combinations; untagged enum; "
            "flattened map) x a type-directed generator (matching texts, boundary integers, near-matching shapes: wrong length, missing / repeated / "
            "unknown fields, sequence form of structs, every enum framing, wrong key spellings, other shapes, trailing bytes) plus a fixed list of 50 "
            "texts of every shape against every type, through from_str and from_slice; results are compared as the serde_json text of the decoded "
            "Rust value (floats by their bits); non-trivial = at least one side accepts")
    trusted = ["35 of the types are modelled in Lean (Spec.decode); f32, &str, Cow<str>, the struct with borrowed fields, the untagged enum, the flattened "
               "struct and Vec<f64> are compared with serde_json only (differential)",
               "documented differences: f32 is compared with serde_json's f64 narrowed to f32; nesting limits and error wording are not compared"]
    assumptions = ["numeric and bool map keys are written without escapes (both libraries read them from the raw key text)"]

    def explore(self, ctx, res):
        name = "c04"
        cases_path = generate(ctx, name)
        impl, model, crashed, err = run_stream(ctx, name, cases_path)
        with open(cases_path) as f:
            cases = f.read().splitlines()
        if crashed or len(impl) != len(cases):
            idx = min(len(impl), len(cases) - 1)
            res.oracle_failures.append(dict(key="c04:process-abort", case=cases[idx], detail=f"harness exited abnormally after {len(impl)} of {len(cases)} cases: {err[-300:]}"))
        n = min(len(impl), len(cases))
        for i in range(n):
            case = cases[i]
            res.evaluations += 1
            tid = case.split(" ")[1]
            I = ctx["parse_fields"](impl[i])
            M = ctx["parse_fields"](model[i]) if model and i < len(model) else {}
            if model is not None and "spec" not in M:
                res.model_disagreements.append(dict(key="c04:model-output-missing", case=case, detail=""))
                continue
            spec = M.get("spec")
            serde = I.get("serde")
            if len(res.samples) < 6 and i % max(1, n // 6) == 0:
                res.samples.append({"case": case[:200], "impl": impl[i][:200], "model": (model[i][:200] if model and i < len(model) else None)})
            res.distribution[f"type:{tid}:" + ("accept" if serde != "R" else "reject")] += 1
            if serde != "R" or I.get("sonic_slice") != "R":
                res.nontrivial(case)
            ref = serde
            if spec is not None and spec != "NOTMODELLED":
                # adequacy of the reference semantics: it must be serde_json's
                if spec != serde and serde != "PANIC":
                    res.model_disagreements.append(dict(key=f"c04:reference-semantics-is-not-serde_json:type-{tid}", case=case, detail=f"Lean {spec[:120]} serde_json {serde[:120] if serde else None}"))
                ref = spec
            mdl = M.get("model")
            if spec is not None and spec != "NOTMODELLED":
                if mdl is None or mdl == "FUEL":
                    res.model_disagreements.append(dict(key="c04:deserializer-model-output-missing", case=case, detail=str(mdl)))
                else:
                    res.distribution["de-model:" + ("accept" if mdl != "R" else "reject")] += 1
            for fld in ("sonic", "sonic_slice"):
                got = I.get(fld)
                if got in (None, "NA"):
                    continue
                # correspondence: the Lean model of src/serde/de.rs (Impl/De.lean) against the implementation
                if mdl not in (None, "FUEL", "NOTMODELLED") and got != "PANIC" and got != mdl:
                    res.model_disagreements.append(dict(key=f"c04:deserializer-model-vs-{fld}:type-{tid}", case=case, detail=f"impl {got[:120]} model {mdl[:120]}"))
                if got == "PANIC":
                    res.oracle_failures.append(dict(key=f"C04|type-{tid}|panic", case=case, detail="the library panicked"))
                elif got != ref:
                    kind = "accepts-what-reference-rejects" if ref == "R" else ("rejects-what-reference-accepts" if got == "R" else "value-differs")
                    res.oracle_failures.append(dict(key=f"C04|type-{tid}|{kind}", case=case, detail=f"{fld} {got[:120]} reference {ref[:120] if ref else None}"))


# ------------------------------------------------------------------------------------------
# C19

class C19(Prop):
    rule = ("typed cases: the (type, text) stream of C04; every accepted text gives a Rust value x, for which to_string(x) must be the Lean rendering of the "
            "value the text denotes (which the theorem render_toJ equates with rendering to_value's tree), to_value(x) must dump and compare (==, both "
            "directions) as from_str::<Value>(to_string(x)), from_value(to_value(x)) == x and from_str(to_string(x)) == x; 18 special values where one "
            "route fails (non-finite floats, 128-bit integers outside the 64-bit range, key kinds) against the expected outcome of both routes; equality laws "
            "on pairs of documents (fixed pairs incl. duplicated keys, generated documents paired with a member permutation / a mutation / another document): "
            "reflexive, symmetric, equal under every way of building the same value (clone, re-serialization, through serde_json, promoted copy), "
            "agreeing with the Lean equality model, with serde_json's equality and with comparison against primitives; non-trivial = accepted typed case "
            "or a pair of containers")
    trusted = ["f32 values are exempt from the text/DOM comparison (documented: f32 goes through f64, as in serde_json)",
               "'same under every way of building' and agreement with serde_json's equality are required for duplicate-free documents only"]
    assumptions = []
    SPECIAL = {
        "f64_nan": ("6e756c6c", "Err"), "f64_inf": ("6e756c6c", "Err"), "f64_ninf": ("6e756c6c", "Err"), "f32_nan": ("6e756c6c", "Err"),
        "vec_nan": ("5b312e302c6e756c6c5d", "Err"),
    }

    def explore(self, ctx, res):
        name = "c19"
        cases_path = generate(ctx, name)
        impl, model, crashed, err = run_stream(ctx, name, cases_path)
        with open(cases_path) as f:
            cases = f.read().splitlines()
        if crashed or len(impl) != len(cases):
            idx = min(len(impl), len(cases) - 1)
            res.oracle_failures.append(dict(key="c19:process-abort", case=cases[idx], detail=f"harness exited abnormally after {len(impl)} of {len(cases)} cases: {err[-300:]}"))
        n = min(len(impl), len(cases))
        for i in range(n):
            case = cases[i]
            res.evaluations += 1
            I = ctx["parse_fields"](impl[i])
            M = ctx["parse_fields"](model[i]) if model and i < len(model) else {}
            if len(res.samples) < 6 and i % max(1, n // 6) == 0:
                res.samples.append({"case": case[:200], "impl": impl[i][:200], "model": (model[i][:200] if model and i < len(model) else None)})
            if impl[i].startswith("PANIC"):
                res.oracle_failures.append(dict(key="C19|panic", case=case, detail="the library panicked"))
                continue
            tag = case.split(" ")[0]
            if tag == "c19x":
                nm = case.split(" ")[1]
                res.distribution["special"] += 1
                text, dom = I.get("text"), I.get("dom")
                if nm in self.SPECIAL:
                    want = self.SPECIAL[nm]
                    if (text, dom) != want:
                        res.oracle_failures.append(dict(key=f"C19|special|{nm}", case=case, detail=f"text={text} dom={dom} expected {want}"))
                else:
                    # 128-bit integers and key kinds: the same routes succeed as with serde_json, with the same text
                    ok = (text == I.get("ref.text")) and ((dom == "Err") == (I.get("ref.dom") == "Err"))
                    if not ok:
                        res.oracle_failures.append(dict(key=f"C19|special|{nm}", case=case, detail=impl[i][:300]))
                continue
            if tag == "c19e":
                if I.get("laws") == "SKIP":
                    continue
                res.distribution["pair"] += 1
                if "5b" in case or "7b" in case:
                    res.nontrivial(case)
                dup = M.get("dup") == "A"
                for fld in ("refl", "sym", "prim"):
                    if I.get(fld) != "A":
                        res.oracle_failures.append(dict(key=f"C19|equality|{fld}", case=case, detail=impl[i][:200]))
                if not dup:
                    for fld in ("build", "same"):
                        if I.get(fld) != "A":
                            res.oracle_failures.append(dict(key=f"C19|equality|{fld}", case=case, detail=impl[i][:200]))
                    if "ref" in I and I.get("ref") != I.get("eq"):
                        res.oracle_failures.append(dict(key="C19|equality|differs-from-reference-equality", case=case, detail=impl[i][:200]))
                if model is not None and M.get("m.eq") not in (None, "SKIP"):
                    if M.get("m.eq") != I.get("eq"):
                        res.model_disagreements.append(dict(key="c19:equality-model-differs", case=case, detail=f"impl eq={I.get('eq')} model {model[i][:100]}"))
                continue
            # typed case
            tid = case.split(" ")[1]
            if I.get("x") != "A":
                continue
            res.nontrivial(case)
            res.distribution[f"type:{tid}"] += 1
            spec = M.get("spec")
            s_ = I.get("s")
            if spec not in (None, "NOTMODELLED", "FLOAT", "R") and s_ != spec:
                res.oracle_failures.append(dict(key=f"C19|type-{tid}|to_string-differs-from-rendering-of-the-value", case=case, detail=f"impl {s_[:160] if s_ else None} spec {spec[:160]}"))
            if spec not in (None, "NOTMODELLED", "FLOAT", "R") and M.get("viadom") != spec:
                res.model_disagreements.append(dict(key="c19:render_toJ-does-not-hold-on-the-model", case=case, detail=model[i][:200]))
            com = I.get("commute", "")
            if com.startswith("ERR"):
                # one route failed: only 128-bit integers outside the 64-bit range may do that
                ok128 = False
                if tid in ("10", "11") and com == "ERR(false,true)":
                    try:
                        v = int(bytes.fromhex(s_).decode())
                        ok128 = v > 2**64 - 1 or v < -2**63
                    except Exception:
                        ok128 = False
                if not ok128:
                    res.oracle_failures.append(dict(key=f"C19|type-{tid}|one-route-fails", case=case, detail=impl[i][:200]))
                continue
            for fld in ("commute", "eqdom", "fromv", "tos", "froms"):
                if I.get(fld) != "A":
                    res.oracle_failures.append(dict(key=f"C19|type-{tid}|{fld}", case=case, detail=impl[i][:200]))


# ------------------------------------------------------------------------------------------
# C17

class C17(Prop):
    STREAMS = ["c02", "c03", "c05", "c06", "c07", "c08", "c09", "c10", "c14", "c12", "c13", "c20", "c04"]
    rule = ("two builds of the harness from the same tree — rustflags target-cpu=native (AVX2 + PCLMUL code paths) and target-cpu=x86-64 (SSE2 vectors, "
            "portable v256/v512 and the fallback block primitives and digit parser) — run over the complete case streams of C02, C03, C05, C06, C07, C08, "
            "C09, C10, C14, C12, C13, C20 and C04; the two transcripts (accept/reject, decoded values, raw spans, serialized bytes, error codes and offsets) "
            "must be equal line by line; and the primitives called directly in BOTH builds (prefix_xor on single bits, pairs and random words; "
            "get_nonspace_bits with every byte value in every lane; u8xN eq/le and i8xN eq/le/gt bit masks for N = 16, 32, 64 with every byte value in every "
            "lane against 8 constants, plus random vectors; store round trip; get_escaped_branchless_u64 on backslash runs of every length at every offset with both carries, get_string_bits on random JSON-like blocks with all four carries, skip_container_loop over whole generated documents and random bracket/quote/backslash soups block by block; simd_str2int on every digit-run length 1..16 x 12 terminator bytes x every need 1..16 x four digit patterns, plus random; the BitMask functions of the u16 / u32 / u64 masks: first_offset, before on disjoint masks, all_zero, clear_high_bits for every n in 0..=LEN) "
            "against the Lean lane-wise model; non-trivial = every case")
    trusted = ["the CPU executes the vendor intrinsics as documented; the baseline build still uses SSE2 (there is no x86-64 target without it): the scalar "
               "v128 module is not exercised on this machine", "unsigned gt is todo!() in every backend and is not called"]
    assumptions = []

    def explore(self, ctx, res):
        base = build_variant(ctx, "base", rustflags="--cfg sonic_rs_verif -C target-cpu=x86-64")
        if base is None:
            return
        # the primitives against the model, in both builds
        cp = generate(ctx, "c17")
        with open(cp) as f:
            cases = f.read().splitlines()
        outs = {}
        for tag, binary in (("native", ctx["vh"]), ("baseline", base)):
            op = cp + "." + tag
            rc, err = ctx["run_lines"](binary, ["c17", "run"], cp, op)
            with open(op, errors="replace") as f:
                outs[tag] = f.read().splitlines()
            if rc != 0 or len(outs[tag]) != len(cases):
                res.oracle_failures.append(dict(key=f"c17:process-abort:{tag}", case=cases[min(len(outs[tag]), len(cases) - 1)], detail=err[-300:]))
        model = None
        if ctx["driver"]:
            mp = cp + ".model"
            ctx["run_lines"](ctx["driver"], [], cp, mp)
            with open(mp, errors="replace") as f:
                model = f.read().splitlines()
        for i, case in enumerate(cases):
            res.evaluations += 1
            res.nontrivial(case)
            res.distribution["primitive:" + case.split(" ")[1]] += 1
            a = outs["native"][i] if i < len(outs["native"]) else None
            b = outs["baseline"][i] if i < len(outs["baseline"]) else None
            if a != b:
                res.oracle_failures.append(dict(key="C17|primitive|backends-differ|" + case.split(" ")[1], case=case, detail=f"native {a} baseline {b}"))
            if model is not None:
                m = model[i] if i < len(model) else None
                if m is None:
                    res.model_disagreements.append(dict(key="c17:model-output-missing", case=case, detail=""))
                elif a != m or b != m:
                    # a primitive that differs from its lane-wise specification in a build is a violation of the second half of the property
                    res.oracle_failures.append(dict(key="C17|primitive|differs-from-lane-wise-specification|" + case.split(" ")[1], case=case, detail=f"native {a} baseline {b} model {m}"))
            if len(res.samples) < 3 and i % max(1, len(cases) // 3) == 0:
                res.samples.append({"case": case[:200], "impl": str(a)[:200], "model": (model[i][:200] if model and i < len(model) else None)})
        # the library through both builds
        for name in self.STREAMS:
            cp = generate(ctx, name)
            with open(cp) as f:
                cases = f.read().splitlines()
            tr = {}
            for tag, binary in (("native", ctx["vh"]), ("baseline", base)):
                op = cp + ".c17." + tag
                rc, err = ctx["run_lines"](binary, [name, "run"], cp, op)
                with open(op, errors="replace") as f:
                    tr[tag] = f.read().splitlines()
                if rc != 0 or len(tr[tag]) != len(cases):
                    res.oracle_failures.append(dict(key=f"c17:process-abort:{name}:{tag}", case=cases[min(len(tr[tag]), len(cases) - 1)] if cases else name, detail=err[-300:]))
            nn = min(len(cases), len(tr["native"]), len(tr["baseline"]))
            for i in range(nn):
                res.evaluations += 1
                if tr["native"][i] != tr["baseline"][i]:
                    a, b = tr["native"][i].split(" "), tr["baseline"][i].split(" ")
                    fld = next((x.split("=")[0] for x, y in zip(a, b) if x != y), "line")
                    res.oracle_failures.append(dict(key=f"C17|{name}|backends-differ|{fld}", case=cases[i], detail=f"native {tr['native'][i][:200]} baseline {tr['baseline'][i][:200]}"))
            res.distribution["stream:" + name] += nn
            if len(res.samples) < 6 and nn:
                res.samples.append({"case": cases[0][:200], "impl": tr["native"][0][:200], "model": tr["baseline"][0][:200]})


# ------------------------------------------------------------------------------------------
# C01

class C01(Prop):
    rule = ("every safe entry point (DOM from_slice/from_str with Display/Debug/clone/serialization of the result and formatting of errors; serde_json::Value, "
            "typed structs with borrowed / Value / LazyValue / OwnedLazyValue fields, IgnoredAny through the sonic-rs Deserializer; LazyValue and "
            "OwnedLazyValue with their accessors; get with key / index / mixed / empty paths; get_many; get_by_schema; array and object iterators; "
            "stream deserializers; lossy and raw-number modes; &[u8], &str, String, Bytes and FastStr carriers) on fixed truncated / malformed texts, "
            "tokens of every length 0..70 (0..200 thorough) and around 128/256/1024/4096/8192 of seven fill bytes, generated documents and single / "
            "double mutations / truncations of them; each input three times: on the ordinary heap, ending exactly at an unmapped page and starting "
            "exactly after one (any read outside the buffer faults); panics are caught per entry point, the allocation balance of the second run of "
            "the library calls must be zero; results that may outlive their producer by type (keys of to_object_iter / into_object_iter for every carrier, "
            "borrowed strings of Deserializer::from_json / from_str for every carrier) are re-read after the producer is dropped, with an allocator that "
            "overwrites freed memory; the same inputs once more through a build with integer-overflow checks and debug assertions (what a user's debug "
            "profile compiles); documents nested 100 .. 2,000,000 levels ([, {\"a\":, and mixed; closed and unclosed) with every entry "
            "point in its own child process (8 MiB stack, 20 s); non-trivial = every case")
    trusted = ["guard pages detect reads and writes outside the input buffer only at page granularity on the side that abuts the unmapped page (hence both "
               "placements); accesses inside the library's own heap blocks are checked by the allocator's consistency only",
               "no sanitizer build is available offline; Miri cannot run the AVX2 paths, and in a baseline build it stops in the DOM at once (node pointers "
               "are rebuilt from integers: `no provenance` even with -Zmiri-permissive-provenance; Stacked Borrows rejects the neighbour-node arithmetic)"]
    assumptions = []
    DEEP_LIMIT_OK = 1000    # up to this nesting every entry point must return

    def explore(self, ctx, res):
        name = "c01"
        cases_path = generate(ctx, name)
        impl, model, crashed, err = run_stream(ctx, name, cases_path)
        with open(cases_path) as f:
            cases = f.read().splitlines()
        if crashed or len(impl) != len(cases):
            idx = min(len(impl), len(cases) - 1)
            res.oracle_failures.append(dict(key="C01|process-abort", case=cases[idx],
                                            detail=f"harness killed after {len(impl)} of {len(cases)} cases (fault / abort inside a safe entry point): {err[-300:]}"))
        n = min(len(impl), len(cases))
        for i in range(n):
            case = cases[i]
            res.evaluations += 1
            res.nontrivial(case)
            I = ctx["parse_fields"](impl[i])
            if len(res.samples) < 6 and i % max(1, n // 6) == 0:
                res.samples.append({"case": case[:200], "impl": impl[i][:300], "model": None})
            if case.startswith("c01d "):
                _, shape, depth, closed = case.split(" ")
                depth = int(depth)
                res.distribution[f"deep:{shape}"] += 1
                for entry, outcome in I.items():
                    if outcome in ("ok", "err"):
                        continue
                    if outcome.startswith("SIG") and depth > self.DEEP_LIMIT_OK:
                        # unbounded native recursion: one finding per entry point
                        res.oracle_failures.append(dict(key=f"C01|deep-nesting|{entry}|stack-overflow", case=case, detail=f"child process ended with {outcome}"))
                    else:
                        res.oracle_failures.append(dict(key=f"C01|deep-nesting|{entry}|{outcome}-at-depth-{depth}", case=case, detail=f"child process ended with {outcome}"))
                continue
            res.distribution["len:" + str(min(len(case.split(" ")[1]) // 2 // 64 * 64, 4096))] += 1
            if impl[i].startswith("PANIC"):
                res.oracle_failures.append(dict(key="C01|panic-outside-entry", case=case, detail=impl[i][:200]))
                continue
            if I.get("panics") != "-":
                for ep in I.get("panics", "").split(","):
                    if ep.startswith("dangling-"):
                        res.oracle_failures.append(dict(key=f"C01|use-after-free|{ep}", case=case,
                                                        detail=f"{ep}: a result that may outlive the iterator / deserializer by its type reads different bytes after it was dropped (freed memory is overwritten by the harness allocator)"))
                    else:
                        res.oracle_failures.append(dict(key=f"C01|panic|{ep}", case=case, detail=f"entry point {ep} panicked"))
            if I.get("leak") != "0":
                res.oracle_failures.append(dict(key="C01|leak", case=case, detail=f"allocation balance of the library calls: {I.get('leak')} bytes"))
        # the same inputs through a build with the checks of a debug profile (integer-overflow checks, debug assertions): a user's
        # debug build must not panic either
        dbg = build_variant(ctx, "dbg", rustflags="--cfg sonic_rs_verif -C target-cpu=native -C overflow-checks=on -C debug-assertions=on")
        if dbg is not None:
            flat = [c for c in cases if c.startswith("c01 ")]
            fp = cases_path + ".flat"
            with open(fp, "w") as f:
                f.write("\n".join(flat) + "\n")
            op = fp + ".dbg"
            rc, err = ctx["run_lines"](dbg, ["c01", "run"], fp, op)
            with open(op, errors="replace") as f:
                outs = f.read().splitlines()
            if rc != 0 or len(outs) != len(flat):
                res.oracle_failures.append(dict(key="C01|process-abort(debug-checks build)", case=flat[min(len(outs), len(flat) - 1)],
                                                detail=f"harness built with overflow checks and debug assertions died after {len(outs)} of {len(flat)} cases: {err[-300:]}"))
            for case, line in zip(flat, outs):
                res.evaluations += 1
                I = ctx["parse_fields"](line)
                res.distribution["debug-checks-build"] += 1
                if line.startswith("PANIC"):
                    res.oracle_failures.append(dict(key="C01|panic-outside-entry(debug-checks build)", case=case, detail=line[:200]))
                    continue
                if I.get("panics") not in ("-", None):
                    for ep in I.get("panics", "").split(","):
                        res.oracle_failures.append(dict(key=f"C01|panic(debug-checks build)|{ep}", case=case,
                                                        detail=f"entry point {ep} panicked in a build with overflow checks and debug assertions"))


REGISTRY = {"C01": C01(), "C17": C17(), "C19": C19(), "C04": C04(), "C11": C11(), "C13": C13(), "C06": C06(), "C15": C15(), "C16": C16(), "C05": C05(), "C18": C18(), "C08": C08(), "C07": C07(), "C03": C03(), "C02": C02(), "C20": C20(), "C09": C09(), "C10": C10(), "C14": C14(), "C12": C12()}
for _k, _v in REGISTRY.items():
    _v.pid = _k


def get(pid):
    return REGISTRY.get(pid)
