#!/bin/bash
# show replay files of a property: decoded input + detail
for f in /verif/evidence/replay/$1-*.case; do head -2 "$f" | python3 -c "
import sys
l=sys.stdin.read().splitlines()
p=l[0].split()
try: b=bytes.fromhex(p[1]) if p[1]!='-' else b''
except Exception: b=p[1]
print(b[:160], p[2:], l[1][:330])"; done
