import json,sys
pid, seed, avoid = sys.argv[1], sys.argv[2], sys.argv[3]
prop = open('/tmp/prop_%s.txt'%pid).read()  # one JSON object of properties.jsonl written to /tmp/prop_<id>.txt
print(f"""You are helping to evaluate a verification effort by mutation seeding. You work ONLY inside the scratch git worktree /tmp/wt_{seed} (a checkout of the Rust library cloudwego/sonic-rs: SIMD-accelerated JSON library with serde integration, arena-backed mutable DOM Value, lazy values, JSON-pointer get APIs). Do not read or write anything under /verif or /repo. There is no network; build with `cargo ... --offline`.

Here is a semantic property of the library that should hold (JSON description):

{prop}

TASK: make a small, realistic change to the library source in /tmp/wt_{seed} (src/, sonic-number/, sonic-simd/) that BREAKS this property while (a) the crate still compiles, and (b) the existing test suite still passes completely: `cd /tmp/wt_{seed} && cargo nextest run --workspace --no-fail-fast --offline` (fallback `cargo test --workspace --no-fail-fast --offline`) must report 90 passed, 0 failed. The change should look like something a maintainer could plausibly commit (a refactoring, an 'optimisation', a simplification, an off-by-one, a wrong constant, a reordered check, a dropped carry/flag, two sites that each look fine alone) — not sabotage that ordinary use would expose at once. It must need something SPECIFIC to manifest: an unusual input, a particular length/alignment relative to 16/32/64-byte blocks, a multi-step sequence of operations, a particular interleaving or drop order, a fault at a particular point, a build configuration. Code under `#[cfg(sonic_rs_verif)]` (module src/verif.rs and similar hooks) is instrumentation: do not touch it and do not rely on it.

Ideas that were already used in earlier rounds for this property — choose something DIFFERENT in mechanism and location: {avoid}

DELIVERABLES, all inside /tmp/wt_{seed}:
1. the source change left applied in the worktree, and `git diff -- src sonic-number sonic-simd > patch.diff` (file /tmp/wt_{seed}/patch.diff; do not commit);
2. a demonstration program /tmp/wt_{seed}/examples/seed_demo.rs that uses only the public API of the library (and std; dev-dependencies of the crate such as serde, serde_json, bytes, faststr are available to examples) and exits with status 0 when the property holds on the inputs it tries and panics / exits non-zero when the property is violated. It must FAIL with your change (`cargo run -q --offline --example seed_demo`; exit code != 0) and PASS without it (`git apply -R patch.diff`, run again: exit 0; then re-apply the patch). If the property concerns a build configuration, say exactly which RUSTFLAGS / features each run needs.
3. verify all of it yourself: suite 90/90 with the change, demo fails with the change, demo passes without the change. Leave the patch applied at the end.

Report back (short): what you changed and where (file:function), why the existing tests do not notice, exactly what is needed for it to manifest, the commands you ran with their results, and any OTHER genuine defect of the unmodified library relating to this property that you happened to notice (as a side remark, with a reproducer if you have one). Keep your build output inside the worktree (default target dir). Do not spend more than about 40 minutes.""")
