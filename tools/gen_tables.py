#!/usr/bin/env python3
"""Translator: Rust constants / tables / enums of /repo  ->  Lean literals in
lean/SonicModel/Gen/*.lean.  Run by every check before `lake build`, so every theorem that
mentions a table is re-checked against what the source says *now*.

Only writes a file when its content changed (keeps lake's incremental build effective).
Exit status 0 = ok, 2 = a construct the translator understands was not found (the check then
treats the tie as broken and goes on to the failing-input search)."""
import os, re, sys

REPO = os.environ.get("VERIF_REPO", "/repo")
OUT = os.path.join(os.path.dirname(os.path.abspath(__file__)), "..", "lean", "SonicModel", "Gen")
problems = []


def src(path):
    with open(os.path.join(REPO, path), encoding="utf-8") as f:
        return f.read()


def strip_comments(s):
    s = re.sub(r"/\*.*?\*/", " ", s, flags=re.S)
    s = re.sub(r"//[^\n]*", " ", s)
    return s


def byte_lit(tok):
    """b'x', b'\\n', b'\\x08', 12, 0x1f -> int"""
    tok = tok.strip()
    m = re.fullmatch(r"b'(\\x[0-9a-fA-F]{2}|\\.|.)'", tok)
    if m:
        body = m.group(1)
        if body.startswith("\\x"):
            return int(body[2:], 16)
        if body.startswith("\\"):
            return {"n": 10, "r": 13, "t": 9, "\\": 92, "'": 39, '"': 34, "0": 0}[body[1]]
        return ord(body)
    return int(tok, 0)


def bytes_lit(s):
    """contents of a b"..." literal -> list of ints"""
    out, i = [], 0
    while i < len(s):
        c = s[i]
        if c == "\\":
            n = s[i + 1]
            if n == "x":
                out.append(int(s[i + 2:i + 4], 16)); i += 4; continue
            out.append({"n": 10, "r": 13, "t": 9, "\\": 92, '"': 34, "'": 39, "0": 0}[n]); i += 2; continue
        out.append(ord(c)); i += 1
    return out


def find_array(text, name):
    m = re.search(r"const\s+" + name + r"\s*:\s*\[[^=]*?;\s*(\d+)\s*\]\s*=\s*\[", text)
    if not m:
        problems.append(f"array {name} not found"); return None, 0
    n = int(m.group(1))
    i = m.end(); depth = 1; j = i
    in_str = False
    while depth > 0:
        ch = text[j]
        if in_str:
            if ch == "\\": j += 1
            elif ch == '"': in_str = False
        else:
            if ch == '"': in_str = True
            elif ch == "[": depth += 1
            elif ch == "]": depth -= 1
            elif ch == "'" and text[j - 1] == "b":
                # byte char literal: skip to closing quote
                k = j + 1
                if text[k] == "\\": k += 1
                k += 1
                while text[k] != "'": k += 1
                j = k
        j += 1
    return text[i:j - 1], n


def split_top(body):
    """split on top-level commas (outside (), [], strings, char literals)"""
    items, depth, cur, i = [], 0, [], 0
    while i < len(body):
        ch = body[i]
        if ch == '"':
            k = i + 1
            while body[k] != '"':
                if body[k] == "\\": k += 1
                k += 1
            cur.append(body[i:k + 1]); i = k + 1; continue
        if ch == "'" and i > 0 and body[i - 1] == "b":
            k = i + 1
            if body[k] == "\\": k += 1
            k += 1
            while body[k] != "'": k += 1
            cur.append(body[i:k + 1]); i = k + 1; continue
        if ch in "([": depth += 1
        if ch in ")]": depth -= 1
        if ch == "," and depth == 0:
            items.append("".join(cur).strip()); cur = []
        else:
            cur.append(ch)
        i += 1
    last = "".join(cur).strip()
    if last: items.append(last)
    return items


def u8_array(text, name):
    body, n = find_array(text, name)
    if body is None: return None
    vals = [byte_lit(t) for t in split_top(strip_comments_keep_strings(body))]
    if len(vals) != n: problems.append(f"{name}: {len(vals)} items, declared {n}")
    return vals


def strip_comments_keep_strings(s):
    out, i = [], 0
    while i < len(s):
        if s[i] == '"':
            k = i + 1
            while s[k] != '"':
                if s[k] == "\\": k += 1
                k += 1
            out.append(s[i:k + 1]); i = k + 1; continue
        if s[i] == "'" and i > 0 and s[i - 1] == "b":
            k = i + 1
            if s[k] == "\\": k += 1
            k += 1
            while s[k] != "'": k += 1
            out.append(s[i:k + 1]); i = k + 1; continue
        if s.startswith("//", i):
            while i < len(s) and s[i] != "\n": i += 1
            continue
        if s.startswith("/*", i):
            i = s.index("*/", i) + 2; continue
        out.append(s[i]); i += 1
    return "".join(out)


def write(name, content):
    os.makedirs(OUT, exist_ok=True)
    path = os.path.join(OUT, name)
    old = None
    if os.path.exists(path):
        with open(path) as f: old = f.read()
    if old != content:
        with open(path, "w") as f: f.write(content)


def lean_list(vals, per=16, ty=None):
    lines = []
    for i in range(0, len(vals), per):
        lines.append("  " + ", ".join(str(v) for v in vals[i:i + per]))
    return "#[\n" + ",\n".join(lines) + "]"


HEADER = "-- GENERATED by tools/gen_tables.py from /repo — do not edit.\n"


def gen_tables():
    s = src("src/util/string.rs")
    esc = u8_array(s, "ESCAPED_TAB")
    need = u8_array(s, "NEED_ESCAPED")
    body, n = find_array(s, "QUOTE_TAB")
    quote = []
    if body is not None:
        for it in split_top(strip_comments_keep_strings(body)):
            m = re.fullmatch(r'\(\s*(\d+)\s*,\s*\*b"((?:\\.|[^"\\])*)"\s*\)', it, flags=re.S)
            if m:
                bs = bytes_lit(m.group(2)); quote.append((int(m.group(1)), bs)); continue
            m = re.fullmatch(r"\(\s*(\d+)\s*,\s*\[\s*(\d+)\s*;\s*8\s*\]\s*\)", it)
            if m:
                quote.append((int(m.group(1)), [int(m.group(2))] * 8)); continue
            problems.append(f"QUOTE_TAB item not understood: {it[:40]}")
        if len(quote) != n: problems.append(f"QUOTE_TAB: {len(quote)} items, declared {n}")
        for k, (c, bs) in enumerate(quote):
            if len(bs) != 8: problems.append(f"QUOTE_TAB[{k}] has {len(bs)} bytes")
    u = src("src/util/unicode.rs")
    body, n = find_array(u, "DIGIT_TO_VAL32")
    d2v = [int(t, 0) for t in split_top(strip_comments(body))] if body is not None else []
    if body is not None and len(d2v) != n: problems.append(f"DIGIT_TO_VAL32: {len(d2v)} vs {n}")
    m = re.search(r"let v1 = DIGIT_TO_VAL32\[(\d+) \+ src\[0\] as usize\];\s*let v2 = DIGIT_TO_VAL32\[(\d+) \+ src\[1\] as usize\];\s*let v3 = DIGIT_TO_VAL32\[(\d+) \+ src\[2\] as usize\];\s*let v4 = DIGIT_TO_VAL32\[src\[3\] as usize\];\s*v1 \| v2 \| v3 \| v4", u)
    if not m:
        problems.append("hex_to_u32_nocheck: shape not recognised"); offs = (630, 420, 210)
    else:
        offs = tuple(int(x) for x in m.groups())
    out = HEADER + "namespace Sonic.Gen\n\n"
    out += "/-- `ESCAPED_TAB` (src/util/string.rs): escape letter -> byte it denotes, 0 = invalid -/\n"
    out += "def escapedTab : Array UInt8 := " + lean_list(esc or []) + "\n\n"
    out += "/-- `NEED_ESCAPED` (src/util/string.rs) -/\n"
    out += "def needEscaped : Array UInt8 := " + lean_list(need or []) + "\n\n"
    out += "/-- `QUOTE_TAB` lengths -/\n"
    out += "def quoteTabLen : Array UInt8 := " + lean_list([c for c, _ in quote]) + "\n\n"
    out += "/-- `QUOTE_TAB` 8-byte rows, flattened (row b = bytes 8b..8b+7) -/\n"
    out += "def quoteTabBytes : Array UInt8 := " + lean_list([x for _, bs in quote for x in bs]) + "\n\n"
    out += "/-- `DIGIT_TO_VAL32` (src/util/unicode.rs) -/\n"
    out += "def digitToVal32 : Array Nat := " + lean_list(d2v, per=10) + "\n\n"
    out += f"def hexOff0 : Nat := {offs[0]}\ndef hexOff1 : Nat := {offs[1]}\ndef hexOff2 : Nat := {offs[2]}\n\n"
    out += "end Sonic.Gen\n"
    write("Tables.lean", out)


def gen_errors():
    e = src("src/error.rs")
    m = re.search(r"pub enum ErrorCode\s*\{(.*?)\n\}", e, flags=re.S)
    if not m:
        problems.append("enum ErrorCode not found"); return
    body = m.group(1)
    variants = []
    for mm in re.finditer(r'#\[error\("((?:\\.|[^"\\])*)"\)\]\s*([A-Za-z0-9_]+)\s*(\([^)]*\))?\s*,', body):
        msg = mm.group(1).replace("{{", "{").replace("}}", "}").replace('\\"', '"')
        variants.append((mm.group(2), msg, mm.group(3) is not None))
    # classify
    m = re.search(r"pub fn classify\(&self\) -> Category\s*\{\s*match self\.err\.code\s*\{(.*?)\n        \}", e, flags=re.S)
    cat = {}
    if not m:
        problems.append("classify not found")
    else:
        for arm in re.finditer(r"((?:ErrorCode::[A-Za-z0-9_]+(?:\(_\))?\s*\|?\s*)+)=>\s*Category::([A-Za-z]+)", m.group(1)):
            for v in re.findall(r"ErrorCode::([A-Za-z0-9_]+)", arm.group(1)):
                cat[v] = arm.group(2)
    cats = sorted(set(cat.values()))
    out = HEADER + "namespace Sonic.Gen\n\n"
    out += "/-- `error::Category` -/\ninductive Category where\n" + "".join(f"  | {c}\n" for c in cats) + "  deriving DecidableEq, Repr, Inhabited\n\n"
    out += "/-- `error::ErrorCode` (payloads dropped) -/\ninductive Code where\n" + "".join(f"  | {v}\n" for v, _, _ in variants) + "  deriving DecidableEq, Repr, Inhabited\n\n"
    out += "/-- `Error::classify` -/\ndef Code.category : Code → Category\n"
    for v, _, _ in variants:
        if v not in cat: problems.append(f"classify: no arm for {v}")
        out += f"  | .{v} => .{cat.get(v, cats[0] if cats else 'Syntax')}\n"
    out += "\ndef Code.name : Code → String\n" + "".join(f'  | .{v} => "{v}"\n' for v, _, _ in variants)
    out += "\ndef Category.name : Category → String\n" + "".join(f'  | .{c} => "{c}"\n' for c in cats)
    out += "\ndef Code.all : List Code := [" + ", ".join("." + v for v, _, _ in variants) + "]\n"
    out += "\nend Sonic.Gen\n"
    write("ErrorCodes.lean", out)
    # message table for the python side (canonicalising Display text -> variant name)
    import json
    with open(os.path.join(OUT, "error_messages.json"), "w") as f:
        json.dump({msg: v for v, msg, payload in variants if not payload}, f, indent=1, sort_keys=True)


def const_usize(text, name, what):
    m = re.search(r"const\s+" + name + r"\s*:\s*\w+\s*=\s*([^;]+);", text)
    if not m:
        problems.append(f"const {name} not found in {what}"); return 0
    v = m.group(1).strip()
    v = re.sub(r"(u8|u16|u32|u64|usize)::MAX", lambda mm: str({"u8": 255, "u16": 65535, "u32": 2**32 - 1, "u64": 2**64 - 1, "usize": 2**64 - 1}[mm.group(1)]), v)
    v = re.sub(r"_", "", v)
    v = re.sub(r"\bas\s+\w+", "", v)
    try:
        return int(eval(v, {"__builtins__": {}}, {}))
    except Exception:
        problems.append(f"const {name} = {v!r}: not a literal expression"); return 0


def gen_consts():
    node = src("src/value/node.rs")
    reader = src("src/reader.rs")
    de = src("src/serde/de.rs")
    out = HEADER + "namespace Sonic.Gen\n\n"
    out += f"def paddingSize : Nat := {const_usize(reader, 'PADDING_SIZE', 'reader.rs')}\n"
    out += f"def nodePaddingSize : Nat := {const_usize(node, 'PADDING_SIZE', 'node.rs')}\n"
    m = re.search(r'buffer\.extend_from_slice\(&b"((?:\\.|[^"\\])*)"\[\.\.\]\);', node)
    pad = bytes_lit(m.group(1)) if m else []
    if not m: problems.append("padding bytes not found in parse_with_padding")
    out += "/-- the bytes `parse_with_padding` appends before zero-filling the padding -/\n"
    out += "def paddingBytes : List UInt8 := [" + ", ".join(map(str, pad)) + "]\n"
    out += f"def maxAllowedDepth : Nat := {const_usize(de, 'MAX_ALLOWED_DEPTH', 'de.rs')}\n"
    s = src("src/util/string.rs")
    m = re.search(r'#\[cfg\(not\(all\(target_feature = "neon", target_arch = "aarch64"\)\)\)\]\s*impl StringBlock<u32> \{\s*pub\(crate\) const LANES: usize = (\d+);', s)
    if not m: problems.append("StringBlock<u32>::LANES not found")
    out += f"def stringBlockLanes : Nat := {m.group(1) if m else 32}\n"
    m = re.search(r"assert!\(dst\.len\(\) >= value\.len\(\) \* (\d+) \+ (\d+) \+ (\d+)\);", s)
    if not m: problems.append("format_string reserve assertion not found")
    a, b, c = (int(x) for x in m.groups()) if m else (6, 32, 3)
    out += f"def escReserveMul : Nat := {a}\ndef escReserveAdd : Nat := {b + c}\n"
    m = re.search(r"let page_size = (\d+);", s)
    if not m: problems.append("page_size not found")
    out += f"def pageSize : Nat := {m.group(1) if m else 4096}\n"
    num = src("sonic-number/src/lib.rs")
    m = re.search(r"while exponent < ([0-9_]+) && is_digit!\(data, \*index\)", num)
    if not m: problems.append("parse_exponent accumulation bound not found")
    out += f"/-- `parse_exponent` keeps accumulating while `exponent <` this bound -/\ndef expAccBound : Nat := {int(m.group(1).replace('_','')) if m else 1000}\n"
    m = re.search(r"const FLOATING_LONGEST_DIGITS: usize = (\d+);", num)
    if not m: problems.append("FLOATING_LONGEST_DIGITS not found")
    out += f"def floatingLongestDigits : Nat := {m.group(1) if m else 17}\n"
    # Meta constants of node.rs
    mm = re.search(r"impl Meta \{(.*?)\n\}", node, flags=re.S)
    meta = {}
    if mm:
        for c in re.finditer(r"const\s+([A-Z0-9_]+)\s*:\s*u64\s*=\s*([^;]+);", mm.group(1)):
            meta[c.group(1)] = c.group(2).strip()
    env = {}
    for _round in range(4):
        for k, v in meta.items():
            expr = re.sub(r"Self::([A-Z0-9_]+)", lambda m_: "(" + str(env.get(m_.group(1), 0)) + ")", v)
            expr = re.sub(r"!\s*(\(\d+\))", r"((2**64-1) ^ \1)", expr)
            try:
                env[k] = int(eval(expr, {"__builtins__": {}}, {})) % 2**64
            except Exception:
                if _round == 3: problems.append(f"Meta::{k} = {v!r} not evaluated")
    out += "\n/-! `Meta` constants (src/value/node.rs) -/\n"
    for k, v in env.items():
        out += f"def meta_{k} : Nat := {v}\n"
    out += "\nend Sonic.Gen\n"
    write("Consts.lean", out)


def gen_orderings():
    """memory orderings of every atomic access to the two lazily initialised cache pointers"""
    ordmap = {"Relaxed": "relaxed", "Acquire": "acquire", "Release": "release", "AcqRel": "acqRel", "SeqCst": "seqCst"}
    loads, cas, stores = [], [], []
    for path, field in (("src/lazyvalue/owned.rs", "parsed"), ("src/lazyvalue/value.rs", "unescaped")):
        flat = re.sub(r"//[^\n]*", "", src(path))      # (line structure kept: the table records line numbers)
        for m in re.finditer(r"\.\s*" + field + r"\s*\.\s*load\s*\(\s*Ordering::(\w+)\s*\)", flat):
            line = flat.count("\n", 0, m.start()) + 1
            loads.append((path, line, ordmap.get(m.group(1))))
        for m in re.finditer(r"\.\s*" + field + r"\s*\.\s*store\s*\([^;]*?Ordering::(\w+)\s*\)", flat, flags=re.S):
            line = flat.count("\n", 0, m.start()) + 1
            stores.append((path, line, ordmap.get(m.group(1))))
        for m in re.finditer(r"\.\s*" + field + r"\s*\.\s*compare_exchange(?:_weak)?\s*\((.*?)\)\s*\{?", flat, flags=re.S):
            os_ = re.findall(r"Ordering::(\w+)", m.group(1))
            line = flat.count("\n", 0, m.start()) + 1
            if len(os_) != 2:
                problems.append(f"compare_exchange on {field} at {path}:{line}: orderings not understood")
                continue
            cas.append((path, line, ordmap.get(os_[0]), ordmap.get(os_[1])))
    if not loads or not cas:
        problems.append("no load / compare_exchange of the cache pointers found")
    if any(o is None for _, _, o in loads + stores) or any(a is None or b is None for _, _, a, b in cas):
        problems.append("an Ordering of a cache-pointer access was not understood")
    out = "/- GENERATED by tools/gen_tables.py from src/lazyvalue/{owned,value}.rs — do not edit -/\nnamespace Sonic.Gen\n\n"
    out += "inductive MemOrd where\n  | relaxed | acquire | release | acqRel | seqCst\n  deriving DecidableEq, Repr\n\n"
    out += "/-- every `load` of a cache pointer (`LazyRaw::parsed`, `Inner::unescaped`): file, line, ordering -/\n"
    out += "def cacheLoads : List (String × Nat × MemOrd) := [\n" + ",\n".join(f'  ("{p}", {l}, .{o})' for p, l, o in loads) + "]\n\n"
    out += "/-- every `compare_exchange` of a cache pointer: file, line, success ordering, failure ordering -/\n"
    out += "def cacheCas : List (String × Nat × MemOrd × MemOrd) := [\n" + ",\n".join(f'  ("{p}", {l}, .{a}, .{b})' for p, l, a, b in cas) + "]\n\n"
    out += "/-- every plain `store` to a cache pointer -/\n"
    out += "def cacheStores : List (String × Nat × MemOrd) := [" + ", ".join(f'("{p}", {l}, .{o})' for p, l, o in stores) + "]\n"
    out += "\nend Sonic.Gen\n"
    write("Orderings.lean", out)


def main():
    gen_tables()
    gen_errors()
    gen_consts()
    gen_orderings()
    for p in problems:
        print("gen_tables: PROBLEM:", p)
    sys.exit(2 if problems else 0)


if __name__ == "__main__":
    main()
