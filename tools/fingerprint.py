#!/usr/bin/env python3
"""Source fingerprints of the Rust functions the Lean model mirrors (DESIGN.md §2.3).

For every property a list of `file` or `file::fn` entries: the functions (or whole files) of /repo that the hand-written
Lean model of that property follows.  A fingerprint is the SHA-1 of the function's text with comments removed and
whitespace collapsed.  `tools/fingerprints.json` holds the fingerprints of the tree the model was last compared with.

A changed fingerprint is NOT a violation: it means a modelled function was edited, so the quick generator budget may no
longer reach the places where model and code could now differ.  `./check` then runs that property's exploration with the
thorough generators (where the thorough exploration is short enough, see ESCALATE in ./check) and says which model
functions to re-read.

  fingerprint.py --update          rewrite tools/fingerprints.json from /repo's working tree
  fingerprint.py --check C02       print the entries of C02 whose fingerprint differs (exit 0 always)
"""
import hashlib, json, os, re, sys

REPO = "/repo"
ROOT = os.path.dirname(os.path.dirname(os.path.abspath(__file__)))
STORE = os.path.join(ROOT, "tools", "fingerprints.json")

P = "src/parser.rs"
SKIP = [P + "::" + f for f in ("skip_one", "skip_array", "skip_object", "skip_string", "skip_escaped_chars", "do_skip_number",
                                "skip_exponent", "skip_single_digit", "skip_number", "parse_literal", "parse_object_clo",
                                "parse_trailing", "skip_space", "skip_space_peek")]
DOM = [P + "::" + f for f in ("parse_value", "parse_array", "parse_object", "parse_number", "parse_number_inplace",
                               "parse_string_inplace", "parse_literal_visit", "parse_dom", "parse_dom2", "parse_value2",
                               "parse_array2", "parse_object2", "parse_array_end")]
STR = [P + "::" + f for f in ("parse_str", "parse_string_raw", "parse_string_escaped", "parse_escaped_char",
                               "parse_escaped_utf8", "lone_surrogate", "check_invalid_utf8")] + ["src/util/string.rs", "src/util/unicode.rs"]
GETU = [P + "::" + f for f in ("get_from_object", "get_from_array", "get_from_object_checked", "get_from_array_checked",
                                "get_from_with_iter", "get_from_with_iter_unchecked", "skip_container", "skip_container_loop",
                                "get_string_bits", "get_escaped_branchless_u64", "get_escaped_branchless_u32",
                                "skip_string_unchecked", "get_next_token", "skip_one_unchecked", "skip_number_unsafe")] + ["src/lazyvalue/get.rs"]
MANY = [P + "::" + f for f in ("get_many_rec", "get_many_keys", "get_many_keys_unchecked", "get_many_index",
                                "get_many_index_unchecked", "get_many", "get_by_schema", "get_by_schema_rec")] + ["src/pointer/tree.rs"]
ITER = ["src/lazyvalue/iterator.rs", P + "::parse_array_elem_lazy", P + "::parse_entry_lazy"]
NUM = ["sonic-number/src/lib.rs", "sonic-number/src/float.rs", "sonic-number/src/lemire.rs", "sonic-number/src/decimal.rs",
       "sonic-number/src/slow.rs", "sonic-number/src/common.rs"]
LAZY = ["src/lazyvalue/value.rs", "src/lazyvalue/owned.rs", "src/lazyvalue/ser.rs", "src/lazyvalue/de.rs",
        P + "::get_owned_lazyvalue", P + "::load_owned_lazyvalue"]
ERR = ["src/error.rs", "src/reader.rs", P + "::error", P + "::error_index", P + "::fix_position"]
SIMD = ["sonic-simd/src/avx2.rs", "sonic-simd/src/sse2.rs", "sonic-simd/src/v128.rs", "sonic-simd/src/v256.rs", "sonic-simd/src/v512.rs",
        "sonic-simd/src/bits.rs", "sonic-simd/src/traits.rs", "src/util/arch/x86_64.rs", "src/util/arch/fallback.rs", "src/util/arch/mod.rs"]

MODELLED = {
    "C01": [P, "src/serde/de.rs", "src/reader.rs", "src/input.rs"],
    "C02": SKIP + DOM + STR + ["src/serde/de.rs::from_trait", "src/reader.rs"],
    "C03": DOM + STR + ["src/value/visitor.rs", "src/value/node.rs", "sonic-number/src/lib.rs"],
    "C04": ["src/serde/de.rs"] + SKIP + STR + ["sonic-number/src/lib.rs"],
    "C05": ["src/serde/ser.rs", "src/format.rs", "src/writer.rs", "src/util/string.rs"],
    "C06": ["src/value/ser.rs", "src/serde/ser.rs", "src/format.rs", "src/value/node.rs"] + DOM,
    "C07": NUM + [P + "::parse_number"],
    "C08": NUM + ["src/serde/number.rs", "src/serde/rawnumber.rs", "src/serde/ser.rs"],
    "C09": STR + [P + "::skip_string", P + "::skip_escaped_chars"],
    "C10": GETU + SKIP,
    "C11": MANY + SKIP,
    "C12": ITER + SKIP + [P + "::skip_one_unchecked", P + "::skip_number_unsafe"],
    "C13": LAZY + SKIP + STR + [P + "::skip_string_unchecked", P + "::skip_one_unchecked"],
    "C14": GETU + MANY + ITER + SKIP,
    "C15": ["src/value/array.rs", "src/value/object.rs", "src/index.rs", "src/value/node.rs", "src/value/value_trait.rs", "src/value/from.rs"],
    "C16": ["src/value/node.rs", "src/value/shared.rs", "src/serde/de.rs"],
    "C17": SIMD + ["sonic-number/src/lib.rs", P + "::get_string_bits", P + "::skip_container_loop", P + "::skip_string_unchecked",
                   P + "::get_escaped_branchless_u64", P + "::get_escaped_branchless_u32"],
    "C18": ["src/lazyvalue/value.rs", "src/lazyvalue/owned.rs"],
    "C19": ["src/value/ser.rs", "src/value/de.rs", "src/value/partial_eq.rs", "src/serde/ser.rs", "src/serde/de.rs"],
    "C20": ERR + ["src/serde/de.rs", "src/lazyvalue/iterator.rs"],
}


def strip(src):
    src = re.sub(r"/\*.*?\*/", " ", src, flags=re.S)
    src = re.sub(r"//[^\n]*", " ", src)
    return re.sub(r"\s+", " ", src).strip()


def fn_text(src, name):
    """text of every `fn name` item in the file (several impls may define the same name), concatenated"""
    out = []
    for m in re.finditer(r"\bfn\s+" + re.escape(name) + r"\b", src):
        # the body's opening brace: the first `{` outside parentheses / brackets / angle-free text; a `;` there first
        # means a declaration without body
        i, pd = m.end(), 0
        while i < len(src):
            c = src[i]
            if c in "([":
                pd += 1
            elif c in ")]":
                pd -= 1
            elif pd == 0 and c in "{;":
                break
            i += 1
        if i >= len(src) or src[i] == ";":
            continue
        depth, j = 0, i
        while j < len(src):
            c = src[j]
            if c == "{":
                depth += 1
            elif c == "}":
                depth -= 1
                if depth == 0:
                    break
            j += 1
        out.append(src[m.start():j + 1])
    return "\n".join(out)


def fingerprint(entry):
    if "::" in entry:
        path, name = entry.split("::", 1)
    else:
        path, name = entry, None
    full = os.path.join(REPO, path)
    if not os.path.exists(full):
        return "missing-file"
    with open(full, errors="replace") as f:
        src = f.read()
    text = fn_text(src, name) if name else src
    if name and not text:
        return "missing-fn"
    return hashlib.sha1(strip(text).encode()).hexdigest()


def current():
    seen = {}
    for pid, entries in MODELLED.items():
        for e in entries:
            if e not in seen:
                seen[e] = fingerprint(e)
    return seen


def changed(pid):
    try:
        with open(STORE) as f:
            stored = json.load(f)
    except Exception:
        return ["(tools/fingerprints.json unreadable)"]
    out = []
    for e in MODELLED.get(pid, []):
        if stored.get(e) != fingerprint(e):
            out.append(e)
    return out


if __name__ == "__main__":
    if len(sys.argv) >= 2 and sys.argv[1] == "--update":
        cur = current()
        bad = {k: v for k, v in cur.items() if v.startswith("missing")}
        if bad:
            print("unresolved entries:", bad)
            sys.exit(1)
        with open(STORE, "w") as f:
            json.dump(cur, f, indent=1, sort_keys=True)
        print(f"{len(cur)} fingerprints written")
    elif len(sys.argv) >= 3 and sys.argv[1] == "--check":
        for e in changed(sys.argv[2].upper()):
            print(e)
    else:
        print(__doc__)
