#!/bin/bash
# verify a seeded change whose demonstration is examples/seed_demo.rs in its scratch worktree /tmp/wt_<ID>:
# suite passes with it, demo fails (non-zero exit) with it, demo passes without it
P=$1; W=/tmp/wt_$P
cd $W || exit 2
test -s patch.diff || { echo "no patch.diff"; exit 1; }
git diff -- src sonic-number sonic-simd > /tmp/cur_$P.diff
cmp -s /tmp/cur_$P.diff patch.diff || echo "note: worktree diff differs from patch.diff"
echo "== with change: suite"; cargo nextest run --workspace --no-fail-fast --offline 2>&1 | grep -E "Summary|FAIL" | head -5
echo "== with change: demo"; cargo run -q --offline --example seed_demo > /tmp/demo_with_$P.txt 2>&1; echo "exit=$?"; tail -4 /tmp/demo_with_$P.txt
git apply -R patch.diff
echo "== without change: demo"; cargo run -q --offline --example seed_demo > /tmp/demo_without_$P.txt 2>&1; echo "exit=$?"; tail -3 /tmp/demo_without_$P.txt
git apply patch.diff
rm -f /tmp/cur_$P.diff
