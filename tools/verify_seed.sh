#!/bin/bash
# verify a seeded change in its scratch worktree: tests pass with it, demo fails with it, demo passes without it
P=$1; W=/tmp/wt_$P; S=/tmp/seed_$P
cd $W || exit 2
git checkout -q -- . ; git stash list | head -2
git apply --check $S/patch.diff || { echo "patch does not apply"; exit 1; }
git apply $S/patch.diff
cp $S/seed_demo.rs tests/seed_demo.rs
echo "== with change: suite (excluding demo)"; cargo nextest run --workspace --no-fail-fast --offline -E 'not binary(seed_demo)' 2>&1 | grep -E "Summary|FAIL" | head -5
echo "== with change: demo"; cargo nextest run --offline --test seed_demo --no-fail-fast 2>&1 | grep -E "Summary|FAIL|PASS" | head -5
git apply -R $S/patch.diff
echo "== without change: demo"; cargo nextest run --offline --test seed_demo --no-fail-fast 2>&1 | grep -E "Summary|FAIL|PASS" | head -5
git apply $S/patch.diff
