#!/bin/bash
# try_seed.sh <seedname> <check ids...> : apply the seeded patch to /repo, run the checks (quick), undo
S=$1; shift
git -C /repo apply /verif/seeded/$S/patch.diff || exit 1
for P in "$@"; do (cd /verif && ./check $P 2>&1 | grep -E "VIOLATION|\[check\] $P" | head -4); done
git -C /repo checkout -- .
git -C /repo status --short | head -3
