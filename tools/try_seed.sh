#!/bin/bash
# try_seed.sh <seedname> <check ids...> : apply the seeded patch to /repo, run the checks (quick), undo.
# The evidence files of the checks are put back afterwards: committed evidence must come from the unchanged tree.
S=$1; shift
git -C /repo apply /verif/seeded/$S/patch.diff || exit 1
for P in "$@"; do
  cp /verif/evidence/$P.json /tmp/evidence_$P.json.bak 2>/dev/null
  (cd /verif && ./check $P 2>&1 | grep -E "VIOLATION|\[check\] $P" | head -4)
  [ -f /tmp/evidence_$P.json.bak ] && mv /tmp/evidence_$P.json.bak /verif/evidence/$P.json
  rm -f /verif/evidence/replay/$P-*
done
git -C /repo checkout -- .
git -C /repo status --short | head -3
